------------------------------ MODULE DaemonTrace ------------------------------
(* Traces of real `python -m cobald.daemon` processes: {cfg, events:[{e:"Constructed", n,   *)
(*  inloop} | {e:"Run", n} | {e:"Beat", n} | {e:"Cancelled", n} | {e:"Sigint"} |             *)
(*  {e:"Exit", code, errlogged} | {e:"StillRunning"}]}                                       *)
EXTENDS Daemon, SequencesExt, Json, IOUtils, TLCExt
Traces == JsonDeserialize(IOEnv.TRACE_FILE)
NT == Len(Traces)
VARIABLES tid, l, nc, idle
tvars == <<vars, tid, l, nc, idle>>
Tr == Traces[tid]
Ev == Tr.events[l]
CfgOf(c) == [kind |-> c.kind, err |-> c.err, svcs |-> ToSet(c.svcs), elems |-> c.elems, fails |-> c.fails,
             sigint |-> c.sigint, badelem |-> c.badelem, cancellable |-> ToSet(c.cancellable)]
TraceInit == /\ tid \in 1..NT /\ l = 1 /\ nc = FALSE /\ idle = FALSE
             /\ InitWith(CfgOf(Traces[tid].cfg))
Step == l <= Len(Tr.events) /\ l' = l + 1 /\ UNCHANGED tid
IsSvc(n) == n \in cfg.svcs
TConstructed == /\ Ev.e = "Constructed"
                /\ constructed' = Append(constructed, Ev.n)
                /\ inloop' = (inloop /\ Ev.inloop)
                /\ phase' = IF phase = "boot" THEN "loading" ELSE phase
                /\ UNCHANGED <<cfg, started, beats, cancelled, errlogged, sigsent, exit, idle>>
                /\ nc' = (nc \/ ~(phase \in {"boot", "loading"} /\ Len(constructed) < Len(cfg.elems) /\ Ev.n = cfg.elems[Len(cfg.elems) - Len(constructed)]))
TRun == /\ Ev.e = "Run"
        /\ started' = IF IsSvc(Ev.n) THEN [started EXCEPT ![Ev.n] = @ + 1] ELSE started
        /\ phase' = IF phase \in {"boot", "loading"} THEN "running" ELSE phase
        /\ UNCHANGED <<cfg, constructed, inloop, beats, cancelled, errlogged, sigsent, exit, idle>>
        /\ nc' = (nc \/ ~(IsSvc(Ev.n) /\ started[Ev.n] = 0 /\ Len(constructed) = Len(cfg.elems)))
TBeat == /\ Ev.e = "Beat"
         /\ beats' = IF IsSvc(Ev.n) THEN [beats EXCEPT ![Ev.n] = IF @ < 3 THEN @ + 1 ELSE @] ELSE beats
         /\ UNCHANGED <<cfg, phase, constructed, inloop, started, cancelled, errlogged, sigsent, exit, idle>>
         /\ nc' = (nc \/ ~(IsSvc(Ev.n) /\ started[Ev.n] = 1))
TCancelled == /\ Ev.e = "Cancelled"
              /\ cancelled' = cancelled \cup {Ev.n}
              /\ UNCHANGED <<cfg, phase, constructed, inloop, started, beats, errlogged, sigsent, exit, idle>>
              /\ nc' = (nc \/ ~(sigsent \/ cfg.fails \in cfg.svcs))
TSigint == /\ Ev.e = "Sigint" /\ sigsent' = TRUE /\ phase' = "stopping"
           /\ UNCHANGED <<cfg, constructed, inloop, started, beats, cancelled, errlogged, exit, idle>>
           /\ nc' = nc
TExit == /\ Ev.e = "Exit" /\ exit' = Ev.code /\ errlogged' = Ev.errlogged /\ phase' = "exited"
         /\ UNCHANGED <<cfg, constructed, inloop, started, beats, cancelled, sigsent, idle>>
         /\ nc' = (nc \/ ~(Ev.code = (IF ShouldFail /\ ~sigsent THEN 1 ELSE 0)))
\* the process neither exited nor has anything running although it should: "stays up idle"
TStill == /\ Ev.e = "StillRunning" /\ idle' = TRUE
          /\ UNCHANGED <<cfg, phase, constructed, inloop, started, beats, cancelled, errlogged, sigsent, exit>>
          /\ nc' = TRUE
TraceNext == Step /\ (TConstructed \/ TRun \/ TBeat \/ TCancelled \/ TSigint \/ TExit \/ TStill)
TraceSpec == TraceInit /\ [][TraceNext]_tvars
NeverIdle == ~idle
Mon(name, ok) == ok \/ PrintT(<<"PV", tid, l - 1, name>>)
Monitor == /\ Mon("ConstructedInRunningLoop", ConstructedInRunningLoop)
           /\ Mon("ExactlyOnce", ExactlyOnce)
           /\ Mon("AllStartedBeforeStop", AllStartedBeforeStop)
           /\ Mon("SigintGraceful", SigintGraceful)
           /\ Mon("ErrorsExitNonZero", ErrorsExitNonZero)
           /\ Mon("ExitZeroOnlyAfterSigint", ExitZeroOnlyAfterSigint)
           /\ Mon("RunsUntilStopped", RunsUntilStopped)
           /\ Mon("NeverIdle", NeverIdle)
           /\ (l <= Len(Tr.events) \/ PrintT(<<"END", tid, l - 1, nc>>))
NCMonitor == (nc' /\ ~nc) => PrintT(<<"NC", tid, l, Ev.e>>)
=============================================================================
