----------------------------- MODULE YamlPipeline -----------------------------
(***************************************************************************)
(* Loading the pipeline section of a YAML configuration (property C05):     *)
(*   daemon/config/yaml.py yaml_constructor, daemon/core/config.py          *)
(*   PipelineTranslator.translate_hierarchy, interfaces/_partial.py         *)
(*                                                                         *)
(* A pipeline has n elements; forms[i] is how element i is written:         *)
(*   "tagmap" !Tag {k: v}   "tagseq" !Tag [v, ..]   "tagbare" !Tag          *)
(*   "typemap" {__type__: dotted.name, k: v}                                *)
(* failpos = 0, or the position whose constructor raises when it is called. *)
(* Phase 1 (YAML): tags become templates in document order - nothing is     *)
(* constructed.  Phase 2 (PipelineTranslator): elements are constructed     *)
(* last to first, each receiving the previously constructed one as target   *)
(* (core/config.py:143-160).  One step per constructor call.                *)
(***************************************************************************)
EXTENDS Naturals, Sequences, FiniteSets, TLC

VARIABLES n, forms, failpos, log, result, argsok
vars == <<n, forms, failpos, log, result, argsok>>

Pending == [state |-> "pending"]
InitWith(nn, fs, fp) ==
    /\ n = nn /\ forms = fs /\ failpos = fp
    /\ log = <<>> /\ result = Pending /\ argsok = TRUE

NextPos == n - Len(log)          \* constructed so far: n, n-1, ..., NextPos+1

\* the constructor of element i is called (with the previous object as target)
Construct(i) ==
    /\ result = Pending /\ i = NextPos /\ i >= 1
    /\ log' = Append(log, i)
    /\ result' = IF i = failpos THEN [state |-> "raised"] ELSE Pending
    /\ UNCHANGED <<n, forms, failpos, argsok>>

\* load() returns the list: element i's target is the very element i+1
Return(r) ==
    /\ result = Pending /\ NextPos = 0
    /\ r = [state |-> "ok", len |-> n, order |-> [i \in 1..n |-> i], linked |-> [i \in 1..n |-> TRUE]]
    /\ result' = r
    /\ UNCHANGED <<n, forms, failpos, log, argsok>>

Next == \/ \E i \in 1..n : Construct(i)
        \/ Return([state |-> "ok", len |-> n, order |-> [i \in 1..n |-> i], linked |-> [i \in 1..n |-> TRUE]])

-----------------------------------------------------------------------------
RECURSIVE Countdown(_, _)
Countdown(hi, lo) == IF hi < lo THEN <<>> ELSE <<hi>> \o Countdown(hi - 1, lo)
Final == result.state # "pending"

\* "yields n objects in configuration order in which every element's target is the very
\*  next object and the last one is the pool"
Linked == result.state = "ok" =>
    /\ result.len = n
    /\ \A i \in 1..n : result.order[i] = i /\ result.linked[i]
\* "each is constructed exactly once, last to first"
OnceLastToFirst ==
    /\ \A a, b \in 1..Len(log) : log[a] = log[b] => a = b
    /\ log = Countdown(n, n - Len(log) + 1)
    /\ result.state = "ok" => Len(log) = n
\* "with exactly the configured arguments"
ArgsExact == argsok
\* "A constructor error surfaces as an exception from loading, never as a partially linked pipeline"
NoPartial == Final => (result.state = "raised" <=> (failpos # 0))
StopsAtFailure == failpos # 0 => \A a \in 1..Len(log) : log[a] >= failpos
=============================================================================
