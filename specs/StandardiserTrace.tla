--------------------------- MODULE StandardiserTrace ---------------------------
(***************************************************************************)
(* Batch validation of traces recorded from the real Standardiser against   *)
(* Standardiser.tla.  The file named by the environment variable TRACE_FILE *)
(* holds a JSON array of traces                                             *)
(*   {par:{min,max,g,surplus,backlog}, supply, tdemand,                     *)
(*    events:[{e:"Write", v, ty, t, s} | {e:"Read", r, s} |                 *)
(*            {e:"SupplyChange", v} | {e:"OutsideDemand", v} |              *)
(*            {e:"Fitness", through:[..], direct:[..]}]}                    *)
(* all numbers in half units (the driver chose them on the grid; a result   *)
(* off the grid is logged as OffGrid = 777777).                             *)
(*                                                                         *)
(* The state after every event is the OBSERVED state of the code (t = the   *)
(* pool's demand, s = the decorator's private _demand, r = the value read); *)
(* every property of Standardiser.tla is evaluated on it (PV lines).        *)
(* Independently, nc records whether the step is one the specification's    *)
(* action allows (NC line at the first step that is not).                   *)
(***************************************************************************)
EXTENDS StandardiserIncr, Sequences, Json, IOUtils, TLCExt

Traces == JsonDeserialize(IOEnv.TRACE_FILE)
NT == Len(Traces)
Unobs == 888888         \* the driver could not observe the private _demand

VARIABLES tid, l, nc, pt

tvars == <<vars, tid, l, nc, pt>>

Tr == Traces[tid]
Ev == Tr.events[l]

TraceInit ==
    /\ tid \in 1..NT
    /\ l = 1
    /\ nc = FALSE
    /\ pt = TRUE
    /\ par = Traces[tid].par
    /\ supply = Traces[tid].supply
    /\ tdemand = Traces[tid].tdemand
    /\ sdemand = Traces[tid].sdemand
    /\ fresh = FALSE
    /\ lastw = 0
    /\ act = [name |-> "Init", v |-> 0, ty |-> "float"]
    /\ ret = 0

Step == l <= Len(Tr.events) /\ l' = l + 1 /\ UNCHANGED tid

\* observed successor state first, then: is it what the specification's action allows?
TWrite ==
    /\ Ev.e = "Write"
    /\ tdemand' = Ev.t
    /\ sdemand' = IF Ev.s = Unobs THEN Clamp(par, supply, Ev.v) ELSE Ev.s
    /\ fresh' = TRUE /\ lastw' = Ev.v
    /\ act' = [name |-> "Write", v |-> Ev.v, ty |-> Ev.ty]
    /\ UNCHANGED <<par, supply, ret, pt>>
    /\ nc' = (nc \/ ~Write(Ev.v, Ev.ty))

TRead ==
    /\ Ev.e = "Read"
    /\ ret' = Ev.r
    /\ sdemand' = IF Ev.s = Unobs THEN Ev.r ELSE Ev.s
    /\ act' = [name |-> "Read", v |-> 0, ty |-> "float"]
    /\ UNCHANGED <<par, supply, tdemand, fresh, lastw, pt>>
    /\ nc' = (nc \/ ~Read)

TSupply ==
    /\ Ev.e = "SupplyChange"
    /\ SupplyChange(Ev.v)
    /\ UNCHANGED <<nc, pt>>

TOutside ==
    /\ Ev.e = "OutsideDemand"
    /\ OutsideDemand(Ev.v)
    /\ UNCHANGED <<nc, pt>>

\* supply / utilisation / allocation read through the decorator vs. from the pool
TFitness ==
    /\ Ev.e = "Fitness"
    /\ pt' = (Ev.through = Ev.direct)
    /\ act' = [name |-> "Fitness", v |-> 0, ty |-> "float"]
    /\ UNCHANGED <<par, supply, tdemand, sdemand, fresh, lastw, ret, nc>>

TraceNext == Step /\ (TWrite \/ TRead \/ TSupply \/ TOutside \/ TFitness)

TraceSpec == TraceInit /\ [][TraceNext]_tvars

PassThrough == pt

\* ---- monitors: one PV line per (trace, event, property) that fails on observed state
Mon(name, ok) == ok \/ PrintT(<<"PV", tid, l - 1, name>>)

Monitor ==
    /\ Mon("WithinMinMax", WithinMinMax)
    /\ Mon("WithinWindowUnlessForced", WithinWindowUnlessForced)
    /\ Mon("FloorWhenFree", FloorWhenFree)
    /\ Mon("ReadbackLimited", ReadbackLimited)
    /\ Mon("ReadbackUnrounded", ReadbackUnrounded)
    /\ Mon("ReadbackWithinGranule", ReadbackWithinGranule)
    /\ Mon("PassThrough", PassThrough)
    /\ (l <= Len(Tr.events) \/ PrintT(<<"END", tid, l - 1, nc>>))

\* first step the specification does not allow
NCMonitor == (nc' /\ ~nc) => PrintT(<<"NC", tid, l, Ev.e>>)
=============================================================================
