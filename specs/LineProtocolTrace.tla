--------------------------- MODULE LineProtocolTrace ---------------------------
(* Traces: {rec:{name,cfg,args,created,res}, line:[codes]} - the line is what the real    *)
(* LineProtocolFormatter produced (nanosecond zeros stripped and checked by the driver).  *)
EXTENDS LineProtocol, Json, IOUtils, TLCExt
Traces == JsonDeserialize(IOEnv.TRACE_FILE)
NT == Len(Traces)
VARIABLES tid, l, nc
tvars == <<vars, tid, l, nc>>
TraceInit == /\ tid \in 1..NT /\ l = 1 /\ nc = FALSE /\ InitWith(Traces[tid].rec)
TEmit == /\ l = 1 /\ l' = 2 /\ UNCHANGED <<tid, rec>>
         /\ line' = Traces[tid].line /\ act' = "Emit"
         \* conformance: same decoded content as the specification's own Format (byte
         \* equality is not required: the order of tags and fields is free)
         /\ nc' = (Parse(Traces[tid].line) # Parse(Format(rec)))
TraceNext == TEmit
TraceSpec == TraceInit /\ [][TraceNext]_tvars
Mon(name, ok) == ok \/ PrintT(<<"PV", tid, l - 1, name>>)
Monitor ==
    /\ Mon("OneLine", OneLine)
    /\ Mon("Decodes", Decodes)
    /\ Mon("NameExact", NameExact)
    /\ Mon("TagsExact", TagsExact)
    /\ Mon("FieldsExact", FieldsExact)
    /\ Mon("TimeRoundedDown", TimeRoundedDown)
    /\ (l <= 1 \/ PrintT(<<"END", tid, l - 1, nc>>))
NCMonitor == (nc' /\ ~nc) => PrintT(<<"NC", tid, l, "Emit">>)
=============================================================================
