------------------------------- MODULE Stopping -------------------------------
(***************************************************************************)
(* The stopping kernel: ServiceRunner.shutdown() from another thread racing  *)
(* registrations (adopt), at the granularity of the verification hooks      *)
(* (companion of Registration.tla - start-up - and Closing.tla - the         *)
(* failure path).                                                            *)
(*                                                                         *)
(* shutdown():  Flag     self._must_shutdown = True          sr.shutdown.flag *)
(*              Waited   self._is_shutdown.wait(): the service loop has seen  *)
(*                       the flag and left                   sr.shutdown.stop *)
(*              StopAll  MetaRunner.stop(): every runner (of a snapshot of    *)
(*                       the table) is closed, one after the other            *)
(*                                                           sr.shutdown.ret  *)
(* main:        Finally  the runner tasks have ended, gather returns:         *)
(*                       running.clear(); _runners.clear()   mr.running.clear *)
(*              End      asyncio.run() closes the loop, accept() RETURNS      *)
(* A submitter is Lookup / Check / Queue / Direct as in Registration.tla.     *)
(* Unlike on the failure path, the runner table outlives the runners: between *)
(* StopAll and Finally a registration still finds its (closed) runner.        *)
(***************************************************************************)
EXTENDS Naturals, FiniteSets, TLC

CONSTANTS Subs, FlavOf

VARIABLES spc0,       \* the shutdown thread: "idle" | "flagged" | "waited" | "returned"
          mpc,        \* main: "up" | "finally" | "ended"
          table, alive, running, loopopen,
          spc, sres,  \* submitter pc; what adopt did: "-" | "ok" | "unknown_runner"
          fate        \* "-" | "started" | "maybe" | "discarded" | "queued" | "unsupervised" | "abandoned"
vars == <<spc0, mpc, table, alive, running, loopopen, spc, sres, fate>>

Init == /\ spc0 = "idle" /\ mpc = "up" /\ table = TRUE /\ alive = TRUE /\ running = TRUE /\ loopopen = TRUE
        /\ spc = [s \in Subs |-> "start"] /\ sres = [s \in Subs |-> "-"] /\ fate = [s \in Subs |-> "-"]

Flag == spc0 = "idle" /\ spc0' = "flagged" /\ UNCHANGED <<mpc, table, alive, running, loopopen, spc, sres, fate>>
Waited == spc0 = "flagged" /\ spc0' = "waited" /\ UNCHANGED <<mpc, table, alive, running, loopopen, spc, sres, fate>>
StopAll == /\ spc0 = "waited" /\ spc0' = "returned" /\ alive' = FALSE
           /\ UNCHANGED <<mpc, table, running, loopopen, spc, sres, fate>>
\* main can only get there once the runners have been stopped
Finally == /\ mpc = "up" /\ ~alive /\ mpc' = "finally" /\ running' = FALSE /\ table' = FALSE
           /\ UNCHANGED <<spc0, alive, loopopen, spc, sres, fate>>
End == /\ mpc = "finally" /\ mpc' = "ended" /\ loopopen' = FALSE
       /\ UNCHANGED <<spc0, table, alive, running, spc, sres, fate>>

Lookup(s) == /\ spc[s] = "start"
             /\ spc' = [spc EXCEPT ![s] = IF table THEN "hit" ELSE "miss"]
             /\ UNCHANGED <<spc0, mpc, table, alive, running, loopopen, sres, fate>>
Check(s) == /\ spc[s] = "miss"
            /\ IF running THEN spc' = [spc EXCEPT ![s] = "done"] /\ sres' = [sres EXCEPT ![s] = "unknown_runner"]
               ELSE spc' = [spc EXCEPT ![s] = "toqueue"] /\ UNCHANGED sres
            /\ UNCHANGED <<spc0, mpc, table, alive, running, loopopen, fate>>
Queue(s) == /\ spc[s] = "toqueue"
            /\ spc' = [spc EXCEPT ![s] = "done"] /\ sres' = [sres EXCEPT ![s] = "ok"]
            /\ fate' = [fate EXCEPT ![s] = "queued"]
            /\ UNCHANGED <<spc0, mpc, table, alive, running, loopopen>>
Direct(s) ==
    /\ spc[s] = "hit" /\ spc' = [spc EXCEPT ![s] = "done"] /\ sres' = [sres EXCEPT ![s] = "ok"]
    /\ LET f == FlavOf[s] IN
       fate' = [fate EXCEPT ![s] =
           IF alive THEN "started"
           ELSE IF f = "trio" THEN "discarded"
           ELSE IF f = "threading" THEN "unsupervised"
           ELSE IF loopopen THEN "abandoned" ELSE "discarded"]
    /\ UNCHANGED <<spc0, mpc, table, alive, running, loopopen>>

ShutNext == Flag \/ Waited \/ StopAll
MainNext == Finally \/ End
SubNext(s) == Lookup(s) \/ Check(s) \/ Queue(s) \/ Direct(s)
Next == ShutNext \/ MainNext \/ \E s \in Subs : SubNext(s)
Spec == Init /\ [][Next]_vars /\ WF_vars(ShutNext) /\ WF_vars(MainNext) /\ \A s \in Subs : WF_vars(SubNext(s))

-----------------------------------------------------------------------------
TypeOK == /\ spc0 \in {"idle", "flagged", "waited", "returned"} /\ mpc \in {"up", "finally", "ended"}
          /\ \A s \in Subs : spc[s] \in {"start", "hit", "miss", "toqueue", "done"}
NoUnknownRunner == \A s \in Subs : sres[s] # "unknown_runner"
TableGoneOnlyWhenNotRunning == ~table => ~running
AdoptNeverRaises == \A s \in Subs : sres[s] \in {"-", "ok"}
\* accept() ends only after shutdown() has returned
EndAfterShutdownReturned == mpc # "up" => spc0 = "returned"
\* (expected to fail: F13 and its threading variant)
NeverLeftAlone == \A s \in Subs : fate[s] \notin {"unsupervised", "abandoned"}
Settles == <>[](mpc = "ended" /\ spc0 = "returned" /\ \A s \in Subs : spc[s] = "done")
=============================================================================
