----------------------------- MODULE PeriodicTrace -----------------------------
(* Traces of real services run under trio's MockClock against Periodic.tla.              *)
(* Trace = {scn, pool, I, pending, fcount, events:[...]}; every event carries t (eighths) *)
(*  {e:"Step", t, p, called, argsok, fcount}   one iteration of run(), as observed         *)
(*  {e:"Set", t, attr, v} {e:"Write", t, v}    environment                                 *)
(*  {e:"Quit", t}                              a spawned child of a FactoryPool gives up    *)
(*  {e:"Raised", t}                            an exception left run()                     *)
(*  {e:"End", t}                               the run was stopped                         *)
EXTENDS Periodic, Json, IOUtils, TLCExt

Traces == JsonDeserialize(IOEnv.TRACE_FILE)
NT == Len(Traces)
VARIABLES tid, l, nc, argsok
tvars == <<pvars, tid, l, nc, argsok>>
Tr == Traces[tid]
Ev == Tr.events[l]

TraceInit == /\ tid \in 1..NT /\ l = 1 /\ nc = FALSE /\ argsok = TRUE
             /\ LET T == Traces[tid] IN PInitWith(T.scn, T.pool, T.I, T.pending, T.fcount)
Step_ == l <= Len(Tr.events) /\ l' = l + 1 /\ UNCHANGED tid

\* wake-ups strictly before t that went unobserved: legal iff they had nothing to do
RECURSIVE Between(_, _)
Between(w, t) == IF w >= t THEN <<>> ELSE <<w>> \o Between(w + I, t)
\* An unobserved wake-up AT instant t may have preceded the environment's action at t
\* (benefit of the doubt), unless a Step at t is recorded later in the trace.
StepSeenAt(t) == \E j \in l..Len(Tr.events) : Tr.events[j].e = "Step" /\ Tr.events[j].t = t
Skipped(t) == IF ~SilentOK THEN <<>>
              ELSE IF Ev.e # "Step" /\ ~StepSeenAt(t) THEN Between(nextw, t + 1)
              ELSE Between(nextw, t)
NextAfter(t) == nextw + Len(Skipped(t)) * I
\* the clock may move from now to t without the service missing a wake-up
TimeOk(t) == t >= now /\ NextAfter(t) >= t

TStep == /\ Ev.e = "Step"
         /\ now' = Ev.t
         /\ pool' = Ev.p /\ prev' = pool /\ called' = Ev.called /\ fcount' = Ev.fcount
         /\ act' = [name |-> "Step", iv |-> I \div 2, attr |-> "", v |-> 0]
         /\ steps' = Append(steps \o Skipped(Ev.t), Ev.t)
         /\ dh' = Append(dh, <<Ev.t, Ev.p.demand>>)
         /\ nextw' = Ev.t + I
         /\ argsok' = Ev.argsok
         /\ UNCHANGED <<scn, I, raised, pending, nenv>>
         /\ nc' = (nc \/ ~(TimeOk(Ev.t) /\ Ev.t = NextAfter(Ev.t) /\ ~raised /\ steps' = Append(steps \o Skipped(Ev.t), Ev.t)
                        /\ pool' = [pool EXCEPT !.demand = WakeDemand] /\ called' = (IF IsCtl THEN StepCalled(pool) ELSE <<>>)
                        /\ fcount' = FactoryTarget))

TSet == /\ Ev.e = "Set"
        /\ now' = Ev.t
        /\ Set(Ev.attr, Ev.v)
        /\ dh' = (IF Ev.attr = "demand" THEN <<<<Ev.t, Ev.v>>>> ELSE dh)
        /\ nenv' = nenv + 1
        /\ steps' = steps \o Skipped(Ev.t) /\ nextw' = NextAfter(Ev.t)
        /\ UNCHANGED <<I, raised, pending, fcount, argsok>>
        /\ nc' = (nc \/ ~TimeOk(Ev.t))

TWrite == /\ Ev.e = "Write"
          /\ now' = Ev.t
          /\ pending' = Written(Ev.v)
          /\ act' = [name |-> "Write", iv |-> 0, attr |-> "", v |-> Ev.v]
          /\ nenv' = nenv + 1
          /\ steps' = steps \o Skipped(Ev.t) /\ nextw' = NextAfter(Ev.t)
          /\ UNCHANGED <<scn, pool, prev, called, I, dh, raised, fcount, argsok>>
          /\ nc' = (nc \/ ~TimeOk(Ev.t))

TQuit == /\ Ev.e = "Quit"
         /\ now' = Ev.t
         /\ fcount' = fcount - 1
         /\ act' = [name |-> "Quit", iv |-> 0, attr |-> "", v |-> 0]
         /\ nenv' = nenv + 1
         /\ steps' = steps \o Skipped(Ev.t) /\ nextw' = NextAfter(Ev.t)
         /\ UNCHANGED <<scn, pool, prev, called, I, dh, raised, pending, argsok>>
         /\ nc' = (nc \/ ~(TimeOk(Ev.t) /\ fcount >= 2))

TRaised == /\ Ev.e = "Raised"
           /\ now' = Ev.t /\ raised' = TRUE /\ nc' = TRUE
           /\ act' = [name |-> "Raised", iv |-> 0, attr |-> "", v |-> 0]
           /\ UNCHANGED <<scn, pool, prev, called, nextw, I, steps, dh, pending, fcount, nenv, argsok>>

TEnd == /\ Ev.e = "End"
        /\ now' = Ev.t
        /\ act' = [name |-> "End", iv |-> 0, attr |-> "", v |-> 0]
        /\ steps' = steps \o Skipped(Ev.t) /\ nextw' = NextAfter(Ev.t)
        /\ UNCHANGED <<scn, pool, prev, called, I, dh, raised, pending, fcount, nenv, argsok>>
        /\ nc' = (nc \/ ~TimeOk(Ev.t))

TraceNext == Step_ /\ (TStep \/ TSet \/ TWrite \/ TQuit \/ TRaised \/ TEnd)
TraceSpec == TraceInit /\ [][TraceNext]_tvars

Mon(name, ok) == ok \/ PrintT(<<"PV", tid, l - 1, name>>)
Monitor ==
    /\ Mon("OncePerInterval", raised \/ OncePerInterval)
    /\ Mon("NeverRaises", NeverRaises)
    /\ Mon("LinearDrift", LinearDrift)
    /\ Mon("BufferSilentBetweenBoundaries", BufferSilentBetweenBoundaries)
    /\ Mon("BufferAppliesLatest", BufferAppliesLatest)
    /\ Mon("FactoryAdjusts", FactoryAdjusts)
    /\ (IsCtl =>
        /\ Mon("LinearExact", LinearBound /\ LinearDirection /\ LinearExact)
        /\ Mon("RelativeExact", RelativeExact)
        /\ Mon("OneRuleOnce", OneRuleOnce /\ RuleIsGreatestThresholdNotAbove /\ RuleResultApplied)
        /\ Mon("OneSlaveOnce", OneSlaveOnce /\ SlaveIsGreatestThresholdNotAbove /\ SlavesActOnSwitchTarget)
        /\ Mon("CalledWithTargetAndInterval", argsok))
    /\ (l <= Len(Tr.events) \/ PrintT(<<"END", tid, l - 1, nc>>))
NCMonitor == (nc' /\ ~nc) => PrintT(<<"NC", tid, l, Ev.e>>)
=============================================================================
