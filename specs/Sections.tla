------------------------------- MODULE Sections -------------------------------
(***************************************************************************)
(* Section plugins of a configuration (property C14):                       *)
(*   cobald.daemon.core.config.load_section_plugins   (ordering)            *)
(*   cobald.daemon.config.mapping.load_configuration  (validate + digest)   *)
(*                                                                         *)
(* A scenario scn is chosen in Init and never changes:                      *)
(*   inst     set of installed plugins (their section names)                *)
(*   before   [inst -> SUBSET Names]  "this plugin runs before those"       *)
(*   after    [inst -> SUBSET Names]  "this plugin runs after those"        *)
(*   req      [inst -> BOOLEAN]                                             *)
(*   res      [inst -> {"none","val"}]  what the digest returns             *)
(*   keys     set of top-level keys of the configuration mapping            *)
(* Names may contain names of plugins that are NOT installed.               *)
(*                                                                         *)
(* Actions: PopLogging, RejectUnknown, Digest(p), RejectMissing(p), Return. *)
(* The order in which the code calls the plugins is not fixed by the spec:  *)
(* Digest(p) is enabled as soon as everything that must precede p has been  *)
(* dealt with, so any linear extension of the constraints is a behaviour.   *)
(***************************************************************************)
EXTENDS Naturals, Sequences, FiniteSets, TLC

CONSTANTS Names,        \* plugin names, installed or not
          Scenarios     \* the set of scenarios to explore

VARIABLES scn, calls, logpopped, outcome, kept

vars == <<scn, calls, logpopped, outcome, kept>>

Logging == "logging"

\* q must run before p (direct constraint, both installed)
Precedes(s, q, p) == /\ q \in s.inst /\ p \in s.inst /\ q # p
                     /\ (q \in s.after[p] \/ p \in s.before[q])

RECURSIVE Reach(_, _, _)
\* all installed plugins that transitively precede the plugins in frontier
Reach(s, frontier, acc) ==
    LET new == {q \in s.inst : \E p \in frontier : Precedes(s, q, p)} \ acc
    IN IF new = {} THEN acc ELSE Reach(s, new, acc \cup new)
Ancestors(s, p) == Reach(s, {p}, {})

\* The constraint graph over ALL names (installed or not) is acyclic - the property's
\* quantifier.  A cycle that runs through a name that is not installed is outside it.
PrecedesAny(s, q, p) == /\ q # p
                        /\ \/ p \in s.inst /\ q \in s.after[p]
                           \/ q \in s.inst /\ p \in s.before[q]
RECURSIVE ReachAny(_, _, _)
ReachAny(s, frontier, acc) ==
    LET new == {q \in Names : \E p \in frontier : PrecedesAny(s, q, p)} \ acc
    IN IF new = {} THEN acc ELSE ReachAny(s, new, acc \cup new)
Acyclic(s) == \A p \in Names : p \notin ReachAny(s, {p}, {})

Unknown(s) == s.keys \ (s.inst \cup {Logging})
MissingRequired(s) == {p \in s.inst : s.req[p] /\ p \notin s.keys}

Called == {calls[i][1] : i \in 1..Len(calls)}

\* InitWith lets a model enumerate scenarios with nested \E (no huge set is built)
InitWith(s) == /\ scn = s /\ Acyclic(s)
               /\ calls = <<>>
               /\ logpopped = FALSE
               /\ outcome = "running"
               /\ kept = {}

Init == /\ scn \in {s \in Scenarios : Acyclic(s)}
        /\ calls = <<>>
        /\ logpopped = FALSE
        /\ outcome = "running"
        /\ kept = {}

\* config_data.pop("logging") and configure_logging (mapping.py:187-192)
PopLogging == /\ outcome = "running" /\ ~logpopped
              /\ logpopped' = TRUE
              /\ UNCHANGED <<scn, calls, outcome, kept>>

\* mapping.py:194-198 - before any plugin has run
RejectUnknown == /\ outcome = "running" /\ logpopped /\ calls = <<>>
                 /\ Unknown(scn) # {}
                 /\ outcome' = "cfgerr"
                 /\ UNCHANGED <<scn, calls, logpopped, kept>>

\* everything that must precede p has been dealt with: digested if its section is
\* present, silently skipped if it is absent and not required
Ready(p) == \A q \in Ancestors(scn, p) :
               IF q \in scn.keys THEN q \in Called ELSE ~scn.req[q]

Digest(p) == /\ outcome = "running" /\ logpopped /\ Unknown(scn) = {}
             /\ p \in scn.inst /\ p \in scn.keys /\ p \notin Called
             /\ Ready(p)
             /\ calls' = Append(calls, <<p, TRUE>>)      \* TRUE: called with exactly its section
             /\ kept' = IF scn.res[p] = "val" THEN kept \cup {p} ELSE kept
             /\ UNCHANGED <<scn, logpopped, outcome>>

RejectMissing(p) == /\ outcome = "running" /\ logpopped /\ Unknown(scn) = {}
                    /\ p \in MissingRequired(scn)
                    /\ Ready(p)
                    /\ outcome' = "cfgerr"
                    /\ UNCHANGED <<scn, calls, logpopped, kept>>

Return == /\ outcome = "running" /\ logpopped /\ Unknown(scn) = {}
          /\ MissingRequired(scn) = {}
          /\ (scn.inst \cap scn.keys) \subseteq Called
          /\ outcome' = "ok"
          /\ UNCHANGED <<scn, calls, logpopped, kept>>

Next == \/ PopLogging \/ RejectUnknown \/ Return
        \/ \E p \in Names : Digest(p) \/ RejectMissing(p)

Spec == Init /\ [][Next]_vars

-----------------------------------------------------------------------------
(* Properties, evaluated in final states (outcome # "running") unless stated *)
Final == outcome # "running"

\* "a section ... that no plugin claims makes loading fail with a configuration error
\*  before any plugin has run"
UnknownBeforeAnyDigest ==
    (Final /\ Unknown(scn) # {}) => (outcome = "cfgerr" /\ calls = <<>>)
NoDigestWithUnknown == Unknown(scn) # {} => calls = <<>>

\* "a required plugin whose section is missing makes loading fail with a configuration error"
MissingRequiredFails ==
    (Final /\ MissingRequired(scn) # {}) => outcome = "cfgerr"

\* "Otherwise every plugin whose section is present is called exactly once with exactly
\*  that section's content, plugins without a section are not called"
Count(p) == Cardinality({i \in 1..Len(calls) : calls[i][1] = p})
OncePresentOnly ==
    /\ \A i \in 1..Len(calls) : calls[i][1] \in scn.inst \cap scn.keys
    /\ \A p \in scn.inst : Count(p) <= 1
    /\ (Final /\ Unknown(scn) = {} /\ MissingRequired(scn) = {}) =>
           (outcome = "ok" /\ \A p \in scn.inst \cap scn.keys : Count(p) = 1)
ContentExact == \A i \in 1..Len(calls) : calls[i][2] = TRUE

\* "non-None results are kept"
ResultsKept == outcome = "ok" => kept = {p \in Called : scn.res[p] = "val"}

\* "the order of calls satisfies every before/after constraint between installed plugins"
OrderRespectsConstraints ==
    \A i, j \in 1..Len(calls) :
        Precedes(scn, calls[j][1], calls[i][1]) => j < i

\* "Constraints that name plugins which are not installed are ignored": the outcome is
\* one of the two documented ones, whatever the constraints name
OutcomeDocumented == outcome \in {"running", "ok", "cfgerr"}
=============================================================================
