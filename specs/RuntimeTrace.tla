----------------------------- MODULE RuntimeTrace -----------------------------
(***************************************************************************)
(* Traces recorded from the real runtime (vp/rt/harness.py + the guarded    *)
(* hooks) against Runtime.tla.  The driver normalises raw events to         *)
(*   {e:"AdoptCall"|"AdoptRet"|"SvcNew"|"Start"|"Step"|"End"|"Cancelled"|   *)
(*      "CleanupStep"|"CleanupDone"|"AcceptCall"|"RunningSet"|"CloseBegin"| *)
(*      "CloseEnd"|"AcceptRet"|"Sigint"|"ShutdownCall"|"ShutdownRet"|       *)
(*      "ExecCall"|"XStart"|"XEnd"|"ExecRet"|"SegEnter"|"SegExit"|"Block"|  *)
(*      "ExecAborted"|"ExecRefused"|"SvcLoopExit"|                          *)
(*      "Quiescent"|"Timeout", ...fields}                                   *)
(* The state after an event is the OBSERVED state; nc records whether the   *)
(* step is one the specification's action allows.  Properties that need     *)
(* observations the model does not carry (thread / loop identity, argument  *)
(* equality, outcome identity, overlap of synchronous sections) are         *)
(* evaluated here on the observed fields.                                   *)
(***************************************************************************)
EXTENDS Runtime, Json, IOUtils, TLCExt

Traces == JsonDeserialize(IOEnv.TRACE_FILE)
NT == Len(Traces)

VARIABLES tid, l, nc,
          where,        \* [Payloads -> [tidc, loop, argsok]] as observed at Start
          xobs,         \* [execute ids -> [tidc, loop, argsok, same, starts]]
          segopen,      \* [flavour -> number of open synchronous sections]
          marks         \* [quiescent, timeouts, blocked, stepswhileblocked, secondok]
tvars == <<vars, tid, l, nc, where, xobs, segopen, marks>>

Tr == Traces[tid]
Ev == Tr.events[l]
NoWhere == [tidc |-> "-", loop |-> 0, argsok |-> TRUE]
NoX == [tidc |-> "-", loop |-> 0, argsok |-> TRUE, same |-> TRUE, starts |-> 0]

TraceInit ==
    /\ tid \in 1..NT /\ l = 1 /\ nc = FALSE /\ Init
    /\ where = [p \in Payloads |-> NoWhere]
    /\ xobs = [x \in DOMAIN Execs |-> NoX]
    /\ segopen = [f \in {"asyncio", "trio", "threading"} |-> 0]
    /\ marks = [aborted |-> FALSE, straystart |-> FALSE, loopexited |-> FALSE, earlyfail |-> FALSE, closingonfail |-> FALSE, answered |-> {}, quiescent |-> FALSE, timeouts |-> 0, blocked |-> FALSE, coroafterblock |-> 0, failedatq |-> FALSE, lostatq |-> FALSE,
                stuckatq |-> FALSE, exfail |-> FALSE, execstuck |-> FALSE, adoptstuck |-> FALSE, shutstuck |-> FALSE, restartfail |-> FALSE, stall |-> FALSE]

Step_ == l <= Len(Tr.events) /\ l' = l + 1 /\ UNCHANGED tid
Keep(S) == UNCHANGED S
HowClass(s) == s      \* the driver already classified: none / val / exc / base / kbd

\* ---- one wrapper per event: observed update first, then the specification's action as a test
TAdoptCall == /\ Ev.e = "AdoptCall"
              /\ pst' = [pst EXCEPT ![Ev.p] = "submitting"]
              /\ UNCHANGED <<phase, guard, starts, endhow, cleanleft, adoptret, sigint, shut, result, xst, h, where, xobs, segopen, marks>>
              /\ nc' = (nc \/ ~AdoptCall(Ev.p))
TAdoptRet == /\ Ev.e = "AdoptRet"
             /\ adoptret' = [adoptret EXCEPT ![Ev.p] = IF Ev.ok THEN "ok" ELSE "raised"]
             /\ pst' = [pst EXCEPT ![Ev.p] = IF @ = "submitting" THEN "submitted" ELSE @]
             /\ UNCHANGED <<phase, guard, starts, endhow, cleanleft, sigint, shut, result, xst, h, where, xobs, segopen, marks>>
             /\ nc' = (nc \/ ~AdoptRet(Ev.p))
\* a service instance is created: its unit will be picked up by the polling loop
TSvcNew == /\ Ev.e = "SvcNew"
           /\ pst' = [pst EXCEPT ![Ev.p] = "submitted"]
           /\ adoptret' = [adoptret EXCEPT ![Ev.p] = "ok"]
           /\ UNCHANGED <<phase, guard, starts, endhow, cleanleft, sigint, shut, result, xst, h, where, xobs, segopen, marks>>
           /\ nc' = (nc \/ pst[Ev.p] # "new")
TStart == /\ Ev.e = "Start"
          /\ pst' = [pst EXCEPT ![Ev.p] = "running"]
          /\ starts' = [starts EXCEPT ![Ev.p] = @ + 1]
          /\ where' = [where EXCEPT ![Ev.p] = [tidc |-> Ev.tidc, loop |-> Ev.loop, argsok |-> Ev.argsok]]
          \* (a coroutine payload that starts while another payload of its flavour is between two
          \*  checkpoints - inside a synchronous section - runs in parallel to / in the middle of it)
          /\ h' = [h EXCEPT !.stepafter = @ \/ (Coroutine(Ev.p) /\ After),
                            !.overlap = @ \/ (Coroutine(Ev.p) /\ segopen[Flav[Ev.p]] > 0)]
          /\ UNCHANGED <<phase, guard, endhow, cleanleft, adoptret, sigint, shut, result, xst, xobs, segopen>>
          \* a payload nobody gave to THIS runtime (it was never adopted here) is started
          /\ marks' = [marks EXCEPT !.straystart = @ \/ pst[Ev.p] = "new"]
          /\ nc' = (nc \/ ~(pst[Ev.p] \in {"submitting", "submitted"} /\ (phase[1] \in {"running", "closing", "closed"} \/ (~Coroutine(Ev.p) /\ phase[1] = "ended" /\ Ev.p \notin Pre /\ Triggered))))
TStep == /\ Ev.e = "Step"
         /\ h' = [h EXCEPT !.stepafter = @ \/ (Coroutine(Ev.p) /\ After),
                           !.overlap = @ \/ (Coroutine(Ev.p) /\ segopen[Flav[Ev.p]] > 0)]
         /\ marks' = [marks EXCEPT !.coroafterblock = IF marks.blocked /\ Coroutine(Ev.p) THEN @ + 1 ELSE @]
         /\ UNCHANGED <<phase, guard, pst, starts, endhow, cleanleft, adoptret, sigint, shut, result, xst, where, xobs, segopen>>
         /\ nc' = (nc \/ ~(pst[Ev.p] = "running" /\ (Coroutine(Ev.p) => ~After \/ marks.aborted)))
TEnd == /\ Ev.e = "End"
        /\ pst' = [pst EXCEPT ![Ev.p] = "done"]
        /\ endhow' = [endhow EXCEPT ![Ev.p] = Ev.how]
        /\ h' = [h EXCEPT !.stepafter = @ \/ (Coroutine(Ev.p) /\ After)]
        /\ UNCHANGED <<phase, guard, starts, cleanleft, adoptret, sigint, shut, result, xst, where, xobs, segopen>>
        \* a failure that happens while the service loop is still running - even if shutdown()
        \* has already been asked for - meets runners that are all still open
        /\ marks' = [marks EXCEPT !.earlyfail = @ \/ (Ev.how \in {"val", "exc", "base"} /\ phase[1] = "running" /\ ~marks.loopexited /\ ~sigint),
                                  \* (payloads that end in ANSWER to their cancellation: an interrupt
                                  \*  raised that way is a consequence of what caused the cancellation,
                                  \*  not a stop request of its own)
                                  !.answered = IF endhow[Ev.p] = "cancelled" THEN @ \cup {Ev.p} ELSE @]
        /\ nc' = (nc \/ ~(End(Ev.p, Ev.how) \/ AnswerCancel(Ev.p, Ev.how)))
TCancelled == /\ Ev.e = "Cancelled"
              /\ pst' = [pst EXCEPT ![Ev.p] = IF cleanleft[Ev.p] = 0 THEN "done" ELSE "cancelled"]
              /\ endhow' = [endhow EXCEPT ![Ev.p] = "cancelled"]
              /\ h' = [h EXCEPT !.stepafter = @ \/ After]
              /\ UNCHANGED <<phase, guard, starts, cleanleft, adoptret, sigint, shut, result, xst, where, xobs, segopen, marks>>
              /\ nc' = (nc \/ ~(Cancelled(Ev.p) \/ (marks.aborted /\ Coroutine(Ev.p) /\ pst[Ev.p] = "running")))
TCleanupStep == /\ Ev.e = "CleanupStep"
                /\ cleanleft' = [cleanleft EXCEPT ![Ev.p] = IF @ > 0 THEN @ - 1 ELSE 0]
                /\ pst' = [pst EXCEPT ![Ev.p] = IF cleanleft[Ev.p] <= 1 THEN "done" ELSE "cancelled"]
                /\ h' = [h EXCEPT !.stepafter = @ \/ After]
                /\ UNCHANGED <<phase, guard, starts, endhow, adoptret, sigint, shut, result, xst, where, xobs, segopen, marks>>
                \* (after the deviation F12 the unjoined trio payloads finish their cleanup on their own)
                /\ nc' = (nc \/ ~(CleanupStep(Ev.p) \/ (marks.aborted /\ pst[Ev.p] = "cancelled" /\ cleanleft[Ev.p] > 0)))
TAcceptCall == /\ Ev.e = "AcceptCall"
               /\ IF Ev.ok
                  THEN guard' = Ev.r /\ phase' = [phase EXCEPT ![Ev.r] = "starting"] /\ UNCHANGED result
                  ELSE /\ phase' = [phase EXCEPT ![Ev.r] = "ended"]
                       /\ result' = [result EXCEPT ![Ev.r] = [kind |-> "guard_error", cause |-> "-"]]
                       /\ UNCHANGED guard
               \* rejected although no other runner is accepting: the guard was not released
               /\ marks' = [marks EXCEPT !.restartfail = @ \/ (~Ev.ok /\ \A r2 \in Runners : phase[r2] \in {"idle", "ended"})]
               /\ UNCHANGED <<pst, starts, endhow, cleanleft, adoptret, sigint, shut, xst, h, where, xobs, segopen>>
               /\ nc' = (nc \/ ~AcceptCall(Ev.r))
TRunningSet == /\ Ev.e = "RunningSet"
               /\ phase' = [phase EXCEPT ![Ev.r] = "running"]
               /\ UNCHANGED <<guard, pst, starts, endhow, cleanleft, adoptret, sigint, shut, result, xst, h, where, xobs, segopen, marks>>
               /\ nc' = (nc \/ ~RunningSet(Ev.r))
TCloseBegin == /\ Ev.e = "CloseBegin"
               /\ phase' = [phase EXCEPT ![Ev.r] = "closing"]
               \* the runtime begins to close its runners BECAUSE OF A FAILURE (no stop has been
               \* requested, nobody has interrupted): from here on the run can only end by raising
               /\ marks' = [marks EXCEPT !.closingonfail = @ \/ (Ev.r = 1 /\ Failed # {} /\ Kbd = {} /\ ~sigint /\ shut = "none")]
               /\ UNCHANGED <<guard, pst, starts, endhow, cleanleft, adoptret, sigint, shut, result, xst, h, where, xobs, segopen>>
               /\ nc' = (nc \/ ~CloseBegin(Ev.r))
TCloseEnd == /\ Ev.e = "CloseEnd"
             /\ phase' = [phase EXCEPT ![Ev.r] = "closed"]
             /\ UNCHANGED <<guard, pst, starts, endhow, cleanleft, adoptret, sigint, shut, result, xst, h, where, xobs, segopen, marks>>
             /\ nc' = (nc \/ ~CloseEnd(Ev.r))
TAcceptRet == /\ Ev.e = "AcceptRet"
              /\ UNCHANGED <<pst, starts, endhow, cleanleft, adoptret, sigint, shut, xst, h, where, xobs, segopen>>
              \* the named deviation F12: accept() raised SystemExit without the trio thread joined
              /\ marks' = [marks EXCEPT !.aborted = @ \/ (Ev.r = 1 /\ Ev.exc = "SystemExit" /\ \E p \in Payloads : ~Settled(p))]
              /\ IF result[Ev.r].kind = "guard_error"
                 THEN /\ UNCHANGED <<phase, guard>>
                      \* the rejected accept must have raised RuntimeError
                      /\ result' = [result EXCEPT ![Ev.r] = IF Ev.kind = "raised" /\ Ev.exc = "RuntimeError" THEN @ ELSE [kind |-> "guard_wrong", cause |-> "-"]]
                      /\ nc' = nc
                 ELSE /\ phase' = [phase EXCEPT ![Ev.r] = "ended"]
                      /\ result' = [result EXCEPT ![Ev.r] = [kind |-> Ev.kind, cause |-> Ev.cause]]
                      /\ guard' = IF guard = Ev.r THEN 0 ELSE guard
                      /\ nc' = (nc \/ ~(\/ AcceptRet(Ev.r, [kind |-> Ev.kind, cause |-> Ev.cause])
                                         \/ (Ev.exc = "SystemExit" /\ AcceptAbort(Ev.r, [kind |-> Ev.kind, cause |-> Ev.cause]))))
TSigint == /\ Ev.e = "Sigint" /\ sigint' = TRUE
           /\ UNCHANGED <<phase, guard, pst, starts, endhow, cleanleft, adoptret, shut, result, xst, h, where, xobs, segopen, marks>>
           /\ nc' = (nc \/ phase[1] \notin {"running", "closing", "closed"})
TShutdownCall == /\ Ev.e = "ShutdownCall" /\ shut' = "called"
                 /\ UNCHANGED <<phase, guard, pst, starts, endhow, cleanleft, adoptret, sigint, result, xst, h, where, xobs, segopen, marks>>
                 /\ nc' = (nc \/ phase[1] \in {"idle", "starting"})
TShutdownRet == /\ Ev.e = "ShutdownRet" /\ shut' = IF Ev.ok /\ shut # "raised" THEN "returned" ELSE "raised"
                /\ UNCHANGED <<phase, guard, pst, starts, endhow, cleanleft, adoptret, sigint, result, xst, h, where, xobs, segopen, marks>>
                /\ nc' = (nc \/ shut \notin {"called", "returned"})
TExecCall == /\ Ev.e = "ExecCall" /\ xst' = [xst EXCEPT ![Ev.x] = "called"]
             /\ UNCHANGED <<phase, guard, pst, starts, endhow, cleanleft, adoptret, sigint, shut, result, h, where, xobs, segopen, marks>>
             /\ nc' = (nc \/ ~ExecCall(Ev.x))
TXStart == /\ Ev.e = "XStart" /\ xst' = [xst EXCEPT ![Ev.x] = "started"]
           /\ xobs' = [xobs EXCEPT ![Ev.x] = [@ EXCEPT !.tidc = Ev.tidc, !.loop = Ev.loop, !.argsok = Ev.argsok, !.starts = @ + 1]]
           /\ UNCHANGED <<phase, guard, pst, starts, endhow, cleanleft, adoptret, sigint, shut, result, h, where, segopen, marks>>
           /\ nc' = (nc \/ ~XStart(Ev.x))
TXEnd == /\ Ev.e = "XEnd" /\ xst' = [xst EXCEPT ![Ev.x] = "finished"]
         /\ UNCHANGED <<phase, guard, pst, starts, endhow, cleanleft, adoptret, sigint, shut, result, h, where, xobs, segopen, marks>>
         /\ nc' = (nc \/ ~XEnd(Ev.x))
TExecRet == /\ Ev.e = "ExecRet" /\ xst' = [xst EXCEPT ![Ev.x] = "returned"]
            /\ xobs' = [xobs EXCEPT ![Ev.x].same = Ev.same]
            /\ UNCHANGED <<phase, guard, pst, starts, endhow, cleanleft, adoptret, sigint, shut, result, h, where, segopen, marks>>
            /\ nc' = (nc \/ ~ExecRet(Ev.x))
\* the caller of an execute() whose payload had started and never ended is released with an
\* exception because the runtime terminates (no outcome of the payload exists to compare)
TExecAborted == /\ Ev.e = "ExecAborted" /\ xst' = [xst EXCEPT ![Ev.x] = "aborted"]
                /\ UNCHANGED <<phase, guard, pst, starts, endhow, cleanleft, adoptret, sigint, shut, result, h, where, xobs, segopen, marks>>
                /\ nc' = (nc \/ ~ExecAbort(Ev.x))
\* a blocking execute() of a coroutine payload issued from inside a payload of the SAME
\* flavour cannot be served (its own loop thread would have to wait for itself): the framework
\* refuses it with an exception and the payload is never started
\* (a refusal for a good reason - the caller's own loop would have to wait for itself, the runtime
\*  is going down - is an end of the call of its own kind; any other refusal is a call that
\*  returned without its payload ever having run: ExecOnce)
GoodRefusal == Ev.why = "same" \/ Triggered \/ phase[1] = "ended"
TExecRefused == /\ Ev.e = "ExecRefused" /\ xst' = [xst EXCEPT ![Ev.x] = IF GoodRefusal THEN "refused" ELSE "returned"]
                /\ UNCHANGED <<phase, guard, pst, starts, endhow, cleanleft, adoptret, sigint, shut, result, h, where, xobs, segopen, marks>>
                \* (or, why = "down": the runtime is terminating / has ended and has no runner left)
                /\ nc' = (nc \/ xst[Ev.x] # "called" \/ (Ev.why = "down" /\ ~Triggered /\ phase[1] # "ended"))
\* the service loop of the runtime has left (it noticed the shutdown flag, or was cancelled)
TSvcLoopExit == /\ Ev.e = "SvcLoopExit"
                /\ marks' = [marks EXCEPT !.loopexited = TRUE]
                /\ UNCHANGED <<phase, guard, pst, starts, endhow, cleanleft, adoptret, sigint, shut, result, xst, h, where, xobs, segopen, nc>>
TSeg == /\ Ev.e \in {"SegEnter", "SegExit"}
        /\ segopen' = [segopen EXCEPT ![Ev.flavour] = IF Ev.e = "SegEnter" THEN @ + 1 ELSE (IF @ > 0 THEN @ - 1 ELSE 0)]
        /\ h' = [h EXCEPT !.overlap = @ \/ (Ev.e = "SegEnter" /\ Ev.flavour # "threading" /\ segopen[Ev.flavour] > 0)]
        /\ UNCHANGED <<phase, guard, pst, starts, endhow, cleanleft, adoptret, sigint, shut, result, xst, where, xobs, marks>>
        /\ nc' = nc
TMark == /\ Ev.e \in {"Quiescent", "Timeout", "Block", "CleanupDone"}
         /\ marks' = CASE Ev.e = "Quiescent" ->
                            [marks EXCEPT !.quiescent = TRUE,
                                          !.failedatq = (Failed # {} /\ phase[1] # "ended"),
                                          !.lostatq = (phase[1] = "running" /\ \E p \in Payloads : pst[p] \in {"submitted"} /\ adoptret[p] = "ok"),
                                          !.stuckatq = (Triggered /\ phase[1] \in {"running", "closing", "closed"}),
                                          !.exfail = (Failed = {} /\ ~StopRequested /\ phase[1] # "running" /\ phase[1] # "idle"),
                                          !.shutstuck = (shut = "called"),
                                          !.adoptstuck = (\E p \in Payloads : pst[p] = "submitting" /\ adoptret[p] = "-"),
                                          !.execstuck = (\E x \in DOMAIN Execs : xst[x] \in {"called", "started", "finished"})]
                       [] Ev.e = "Timeout" -> [marks EXCEPT !.timeouts = @ + 1,
                                                            \* a running payload did not answer a command within 2.5 s
                                                            \* although nothing has triggered termination
                                                            !.stall = @ \/ (Ev.what = "command" /\ phase[1] = "running" /\ ~Triggered
                                                                            /\ Ev.p \in Payloads /\ pst[Ev.p] = "running"),
                                                            \* the script could not even be played to its end within the scenario's
                                                            \* time limit (many seconds) and an adopt() is still in its call
                                                            !.adoptstuck = @ \/ (Ev.what = "driver" /\ \E p \in Payloads : pst[p] = "submitting" /\ adoptret[p] = "-")]
                       [] Ev.e = "Block" -> [marks EXCEPT !.blocked = TRUE]
                       [] OTHER -> marks
         /\ UNCHANGED <<phase, guard, pst, starts, endhow, cleanleft, adoptret, sigint, shut, result, xst, h, where, xobs, segopen>>
         /\ nc' = nc

TraceNext == Step_ /\ (TAdoptCall \/ TAdoptRet \/ TSvcNew \/ TStart \/ TStep \/ TEnd \/ TCancelled \/ TCleanupStep
                       \/ TAcceptCall \/ TRunningSet \/ TCloseBegin \/ TCloseEnd \/ TAcceptRet \/ TSigint
                       \/ TShutdownCall \/ TShutdownRet \/ TExecCall \/ TXStart \/ TXEnd \/ TExecRet \/ TExecAborted \/ TExecRefused \/ TSvcLoopExit \/ TSeg \/ TMark)
TraceSpec == TraceInit /\ [][TraceNext]_tvars

-----------------------------------------------------------------------------
(* properties on observations the model does not carry *)
Started(p) == starts[p] > 0
\* C03/C11: the runner of the requested flavour - one loop, one thread per coroutine flavour,
\* thread payloads elsewhere
\* C03 / C12: a runtime starts what was given to it, nothing else (e.g. not what another
\* ServiceRunner instance has queued)
NoStrayStart == ~marks.straystart
RightFlavour == \A p \in Payloads : Started(p) =>
    CASE Flav[p] = "asyncio" -> where[p].tidc = "main" /\ where[p].loop = 1
      [] Flav[p] = "trio" -> where[p].tidc = "trio" /\ where[p].loop = 1
      [] OTHER -> where[p].tidc = "other"
ArgsExact == \A p \in Payloads : Started(p) => where[p].argsok
\* C10
ExecOnce == \A x \in DOMAIN Execs : xobs[x].starts <= 1 /\ (xst[x] = "returned" => xobs[x].starts = 1)
ExecArgsExact == \A x \in DOMAIN Execs : xobs[x].argsok
ExecOutcomeIdentity == \A x \in DOMAIN Execs : xobs[x].same
ExecRightFlavour == \A x \in DOMAIN Execs : xobs[x].starts > 0 =>
    CASE Execs[x] = "asyncio" -> xobs[x].tidc = "main" /\ xobs[x].loop = 1
      [] Execs[x] = "trio" -> xobs[x].tidc = "trio" /\ xobs[x].loop = 1
      [] OTHER -> TRUE
\* C11
NoOverlap == ~h.overlap
\* at the quiescence marker (the script has waited for the runtime to react)
FailStopObserved == ~marks.failedatq
\* C01 while a stop has been requested: a failure that met open runners (before the service loop
\* left) ends the run by raising, the shutdown() in progress notwithstanding
FailStopWhileStopping ==
    /\ (marks.earlyfail /\ phase[1] = "ended" /\ ~sigint /\ Kbd \subseteq marks.answered) => result[1].kind # "returned"
    \* ... and an interrupt (^C, a payload raising KeyboardInterrupt) that arrives while the runtime
    \* is already closing because of a failure does not make the failure pass silently.  (A
    \* failure the runtime has not noticed yet - trio reports one only when its payloads have
    \* finished their shielded cleanup - loses the race against the interrupt: DESIGN 7.6.)
    /\ (marks.closingonfail /\ phase[1] = "ended") => result[1].kind # "returned"
ExactlyOnceObserved == ~marks.lostatq
TerminationObserved == ~marks.stuckatq
ExecNotAFailureObserved == ~marks.exfail
ExecReturnsObserved == ~marks.execstuck
\* "adopt returns None without waiting for the payload"
AdoptReturnsObserved == ~marks.adoptstuck
ShutdownReturnsObserved == ~marks.shutstuck
RestartPossible == ~marks.restartfail
BlockingDoesNotStall == ~marks.stall
\* shutdown / SIGINT without any failure: accept() returns normally
StopReturnsNormally == (Ended /\ Failed = {} /\ Kbd = {} /\ (sigint \/ shut # "none")) => result[1].kind = "returned"
SecondAcceptRejectedCleanly == \A r \in Runners : result[r].kind # "guard_wrong"
ShutdownDoesNotRaise == shut # "raised"

Mon(name, ok) == ok \/ PrintT(<<"PV", tid, l - 1, name>>)
Monitor ==
    /\ Mon("FailStopSafe", FailStopSafe)
    /\ Mon("CauseFaithful", CauseFaithful)
    /\ Mon("InterruptEndsQuietly", InterruptEndsQuietly)
    /\ Mon("FailStopObserved", FailStopObserved)
    /\ Mon("CleanupBeforeEnd", CleanupBeforeEnd)
    /\ Mon("NoStepAfterEnd", NoStepAfterEnd)
    /\ Mon("AtMostOnce", AtMostOnce)
    /\ Mon("AdoptReturnsNone", AdoptReturnsNone)
    /\ Mon("ExactlyOnceObserved", ExactlyOnceObserved)
    /\ Mon("RightFlavour", RightFlavour)
    /\ Mon("NoStrayStart", NoStrayStart)
    /\ Mon("FailStopWhileStopping", FailStopWhileStopping)
    /\ Mon("ArgsExact", ArgsExact)
    /\ Mon("ExecOnce", ExecOnce)
    /\ Mon("ExecArgsExact", ExecArgsExact)
    /\ Mon("ExecOutcomeIdentity", ExecOutcomeIdentity)
    /\ Mon("ExecRightFlavour", ExecRightFlavour)
    /\ Mon("NoOverlap", NoOverlap)
    /\ Mon("AtMostOneAccepting", AtMostOneAccepting)
    /\ Mon("GuardReleasedOnEveryExit", GuardReleasedOnEveryExit)
    /\ Mon("SecondAcceptRejectedCleanly", SecondAcceptRejectedCleanly)
    /\ Mon("ShutdownDoesNotRaise", ShutdownDoesNotRaise)
    /\ Mon("TerminationObserved", TerminationObserved)
    /\ Mon("ExecNotAFailureObserved", ExecNotAFailureObserved)
    /\ Mon("ExecReturnsObserved", ExecReturnsObserved)
    /\ Mon("AdoptReturnsObserved", AdoptReturnsObserved)
    /\ Mon("ShutdownReturnsObserved", ShutdownReturnsObserved)
    /\ Mon("RestartPossible", RestartPossible)
    /\ Mon("BlockingDoesNotStall", BlockingDoesNotStall)
    /\ Mon("StopReturnsNormally", StopReturnsNormally)
    /\ (l <= Len(Tr.events) \/ PrintT(<<"END", tid, l - 1, nc>>))
NCMonitor == (nc' /\ ~nc) => PrintT(<<"NC", tid, l, Ev.e>>)
=============================================================================
