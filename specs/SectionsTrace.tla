----------------------------- MODULE SectionsTrace -----------------------------
(***************************************************************************)
(* Traces of the real load_section_plugins + load_configuration against     *)
(* Sections.tla.  Trace = scenario + events                                 *)
(*   {e:"Digest", p, exact}   a plugin's digest was called (exact: with     *)
(*                            exactly its section's content)                *)
(*   {e:"End", outcome:"ok"|"cfgerr"|"other", kept:[..]}                    *)
(* State after each event = observed call log / outcome / kept mapping.     *)
(***************************************************************************)
EXTENDS Sections, SequencesExt, Json, IOUtils, TLCExt

Traces == JsonDeserialize(IOEnv.TRACE_FILE)
NT == Len(Traces)

VARIABLES tid, l, nc
tvars == <<vars, tid, l, nc>>

Tr == Traces[tid]
Ev == Tr.events[l]

ScnOf(T) == LET I == ToSet(T.inst) IN
    [inst |-> I,
     before |-> [p \in I |-> ToSet(T.before[p])],
     after |-> [p \in I |-> ToSet(T.after[p])],
     req |-> [p \in I |-> T.req[p]],
     res |-> [p \in I |-> T.res[p]],
     keys |-> ToSet(T.keys)]

TraceInit == /\ tid \in 1..NT /\ l = 1 /\ nc = FALSE
             /\ scn = ScnOf(Traces[tid])
             /\ calls = <<>> /\ logpopped = TRUE /\ outcome = "running" /\ kept = {}

Step == l <= Len(Tr.events) /\ l' = l + 1 /\ UNCHANGED tid

TDigest == /\ Ev.e = "Digest"
           /\ calls' = Append(calls, <<Ev.p, Ev.exact>>)
           /\ kept' = IF Ev.p \in scn.inst /\ scn.res[Ev.p] = "val" THEN kept \cup {Ev.p} ELSE kept
           /\ UNCHANGED <<scn, logpopped, outcome>>
           /\ nc' = (nc \/ ~Digest(Ev.p))

TEnd == /\ Ev.e = "End"
        /\ outcome' = Ev.outcome
        /\ kept' = IF Ev.outcome = "ok" THEN ToSet(Ev.kept) ELSE kept
        /\ UNCHANGED <<scn, calls, logpopped>>
        /\ nc' = (nc \/ ~(RejectUnknown \/ Return \/ \E p \in scn.inst : RejectMissing(p)))

TraceNext == Step /\ (TDigest \/ TEnd)
TraceSpec == TraceInit /\ [][TraceNext]_tvars

Mon(name, ok) == ok \/ PrintT(<<"PV", tid, l - 1, name>>)
Monitor ==
    /\ Mon("UnknownBeforeAnyDigest", UnknownBeforeAnyDigest /\ NoDigestWithUnknown)
    /\ Mon("MissingRequiredFails", MissingRequiredFails)
    /\ Mon("OncePresentOnly", OncePresentOnly)
    /\ Mon("ContentExact", ContentExact)
    /\ Mon("ResultsKept", ResultsKept)
    /\ Mon("OrderRespectsConstraints", OrderRespectsConstraints)
    /\ Mon("OutcomeDocumented", OutcomeDocumented)
    /\ (l <= Len(Tr.events) \/ PrintT(<<"END", tid, l - 1, nc>>))
NCMonitor == (nc' /\ ~nc) => PrintT(<<"NC", tid, l, Ev.e>>)
=============================================================================
