-------------------------------- MODULE Factory --------------------------------
(***************************************************************************)
(* cobald.composite.factory.FactoryPool (property C15, reused by C09).      *)
(*                                                                         *)
(* Children are numbered 1..N in order of creation (initial children first, *)
(* then the factory's).  cs[i] = [st, s, u, a, d]:                          *)
(*   st  "none" (not created yet) | "hatch" (active, in the hatchery) |     *)
(*       "mort" (released, in the mortuary) | "gone" (released and garbage  *)
(*       collected - the mortuary is a WeakSet)                             *)
(*   s supply (units), u / a utilisation / allocation (quarters), d demand  *)
(* Actions: WriteDemand, ChildSet (supply/utilisation/allocation change),   *)
(* SelfDisable (a child sets its own demand to 0), Collect, Read, and       *)
(* Adjust = one cycle of run(): shrink (factory.py:99-113) in ANY order     *)
(* compatible with the sort key supply * utilisation, or grow (:115-124),   *)
(* each followed by reaping children without demand.                        *)
(***************************************************************************)
EXTENDS Integers, Sequences, FiniteSets, TLC

CONSTANTS N,            \* maximal number of children ever
          FDem,         \* sequence: demand of the k-th child the factory makes (cycled)
          DemandVals, SupplyVals, FitVals

VARIABLES cs, demand, spawned, last, ever, obs, act,
          n0,           \* number of initial children (never changes)
          foreign       \* children that neither were initial nor came from the factory (always 0)

vars == <<cs, demand, spawned, last, ever, obs, act, n0, foreign>>

Ids == 1..N
Hatch == {i \in Ids : cs[i].st = "hatch"}
Mort == {i \in Ids : cs[i].st = "mort"}
Alive == Hatch \cup Mort            \* FactoryPool.children
Created == {i \in Ids : cs[i].st # "none"}

RECURSIVE SumField(_, _, _)
\* sum of field fld of the children in S of table c
SumField(c, S, fld) == IF S = {} THEN 0
                       ELSE LET x == CHOOSE y \in S : TRUE IN c[x][fld] + SumField(c, S \ {x}, fld)

Dem(c, S) == SumField(c, S, "d")
Sup(c, S) == SumField(c, S, "s")
TotalSupply == Sup(cs, Alive)
Key(i) == cs[i].s * cs[i].u

NoChild == [st |-> "none", s |-> 0, u |-> 4, a |-> 4, d |-> 0]
NoLast == [branch |-> "none", target |-> 0, nspawn |-> 0, lastd |-> 0, relpos |-> {}]
NoObs == [supply |-> 0, demand |-> 0, u |-> 0, a |-> 0]

InitWith(children) ==
    /\ cs = [i \in Ids |-> IF i <= Len(children) THEN children[i] ELSE NoChild]
    /\ demand = SumField(children, 1..Len(children), "d")
    /\ n0 = Len(children) /\ foreign = 0
    /\ spawned = 0 /\ last = NoLast /\ ever = {} /\ obs = NoObs
    /\ act = [name |-> "Init", i |-> 0, attr |-> "", v |-> 0]
Init == InitWith(<<>>)

\* ---------------- release / reap ----------------
Release(c, S) == [i \in Ids |-> IF i \in S THEN [c[i] EXCEPT !.st = "mort", !.d = 0] ELSE c[i]]
Reap(c) == Release(c, {i \in Ids : c[i].st = "hatch" /\ c[i].d <= 0})

\* ---------------- shrink: greedy over an order compatible with the sort key ----------------
RECURSIVE ShrinkFold(_, _, _)
\* order: sequence of ids; returns the set of released ids
ShrinkFold(order, excess, rel) ==
    IF order = <<>> \/ excess <= 0 THEN rel
    ELSE LET i == Head(order) IN
         IF cs[i].d <= excess THEN ShrinkFold(Tail(order), excess - cs[i].d, rel \cup {i})
         ELSE ShrinkFold(Tail(order), excess, rel)

Perms(S) == {p \in [1..Cardinality(S) -> S] : \A x, y \in 1..Cardinality(S) : x # y => p[x] # p[y]}
SortedByKey(p) == \A x, y \in DOMAIN p : x < y => Key(p[x]) <= Key(p[y])
ShrinkResults(target) ==
    {ShrinkFold(p, Dem(cs, Hatch) - target, {}) : p \in {q \in Perms(Hatch) : SortedByKey(q)}}

\* ---------------- grow: spawn until the demand of all children covers the target ----------------
FD(k) == FDem[((k - 1) % Len(FDem)) + 1]
RECURSIVE GrowFold(_, _, _, _)
\* returns [c, n, lastd]: child table, number spawned now, demand of the last one
GrowFold(c, missing, n, lastd) ==
    IF missing <= 0 THEN [c |-> c, n |-> n, lastd |-> lastd]
    ELSE LET id == CHOOSE i \in Ids : c[i].st = "none" /\ \A j \in Ids : c[j].st = "none" => i <= j
             d == FD(spawned + n + 1)
         IN GrowFold([c EXCEPT ![id] = [st |-> "hatch", s |-> 0, u |-> 4, a |-> 4, d |-> d]], missing - d, n + 1, d)

Free == Cardinality({i \in Ids : cs[i].st = "none"})
RECURSIVE Needed(_, _)
Needed(missing, k) == IF missing <= 0 THEN 0 ELSE 1 + Needed(missing - FD(k), k + 1)

Adjust ==
    LET target == demand IN
    IF TotalSupply > target
    THEN \E rel \in ShrinkResults(target) :
            /\ cs' = Reap(Release(cs, rel))
            /\ last' = [branch |-> "shrink", target |-> target, nspawn |-> 0, lastd |-> 0,
                        relpos |-> {i \in rel : cs[i].d > 0}]
            /\ ever' = ever \cup {i \in Ids : cs'[i].st = "mort"}
            /\ UNCHANGED <<demand, spawned, obs, n0, foreign>>
            /\ act' = [name |-> "Adjust", i |-> 0, attr |-> "", v |-> 0]
    ELSE LET missing == target - Dem(cs, Alive) IN
         /\ Needed(missing, spawned + 1) <= Free        \* bounded universe of children
         /\ LET g == GrowFold(cs, missing, 0, 0) IN
            /\ cs' = Reap(g.c)
            /\ spawned' = spawned + g.n
            /\ last' = [branch |-> "grow", target |-> target, nspawn |-> g.n, lastd |-> g.lastd, relpos |-> {}]
            /\ ever' = ever \cup {i \in Ids : cs'[i].st = "mort"}
         /\ UNCHANGED <<demand, obs, n0, foreign>>
         /\ act' = [name |-> "Adjust", i |-> 0, attr |-> "", v |-> 0]

WriteDemand(d) == /\ demand' = d
                  /\ act' = [name |-> "WriteDemand", i |-> 0, attr |-> "", v |-> d]
                  /\ UNCHANGED <<cs, spawned, last, ever, obs, n0, foreign>>

ChildSet(i, attr, v) == /\ i \in Alive
                        /\ cs' = [cs EXCEPT ![i][attr] = v]
                        /\ act' = [name |-> "ChildSet", i |-> i, attr |-> attr, v |-> v]
                        /\ UNCHANGED <<demand, spawned, last, ever, obs, n0, foreign>>

SelfDisable(i) == /\ i \in Hatch
                  /\ cs' = [cs EXCEPT ![i].d = 0]
                  /\ act' = [name |-> "SelfDisable", i |-> i, attr |-> "", v |-> 0]
                  /\ UNCHANGED <<demand, spawned, last, ever, obs, n0, foreign>>

Collect(i) == /\ i \in Mort
              /\ cs' = [cs EXCEPT ![i].st = "gone"]
              /\ act' = [name |-> "Collect", i |-> i, attr |-> "", v |-> 0]
              /\ UNCHANGED <<demand, spawned, last, ever, obs, n0, foreign>>

\* aggregated properties; utilisation / allocation scaled by 4 * 60 (exact for up to 6 children)
WithSupply == {i \in Alive : cs[i].s > 0}
Mean(attr) == IF WithSupply = {} THEN 240
              ELSE (60 * SumField(cs, WithSupply, attr)) \div Cardinality(WithSupply)
Read == /\ obs' = [supply |-> TotalSupply, demand |-> demand, u |-> Mean("u"), a |-> Mean("a")]
        /\ act' = [name |-> "Read", i |-> 0, attr |-> "", v |-> 0]
        /\ UNCHANGED <<cs, demand, spawned, last, ever, n0, foreign>>

Next == \/ Adjust \/ Read
        \/ \E d \in DemandVals : WriteDemand(d)
        \/ \E i \in Ids : \/ SelfDisable(i) \/ Collect(i)
                          \/ \E v \in SupplyVals : ChildSet(i, "s", v)
                          \/ \E v \in FitVals : ChildSet(i, "u", v) \/ ChildSet(i, "a", v)
Spec == Init /\ [][Next]_vars

-----------------------------------------------------------------------------
AfterAdjust == act.name = "Adjust"
Active == Dem(cs, Hatch)

\* "when it grows, the active children's demands cover the requested demand ..."
GrowCovers == (AfterAdjust /\ last.branch = "grow") => Active >= last.target
\* "... and would not without the child spawned last"
GrowMinimal == (AfterAdjust /\ last.branch = "grow" /\ last.nspawn > 0) => Active - last.lastd < last.target
\* "when it shrinks, a child is released only if the remaining active demand still covers the request"
ShrinkKeepsCover == (AfterAdjust /\ last.branch = "shrink" /\ last.relpos # {}) => Active >= last.target
\* "and no child that could still be released that way is kept"
ShrinkMaximal == (AfterAdjust /\ last.branch = "shrink") => \A i \in Hatch : Active - cs[i].d < last.target
\* "Released children have demand 0 and are never active again or both active and released"
ReleasedZeroForever == /\ \A i \in Mort : cs[i].d = 0
                       /\ \A i \in ever : cs[i].st \in {"mort", "gone"}
\* never "both active and released" (nor lost): every child is in exactly one place
HatchMortDisjoint == \A i \in Ids : cs[i].st \in {"none", "hatch", "mort", "gone"}
\* "children with no demand left are released"
NoDemandNoHatch == AfterAdjust => \A i \in Hatch : cs[i].d > 0
\* "children are only ever created by the factory": everything there is was an initial
\* child or the product of exactly one factory call
OnlyFactoryCreates == foreign = 0 /\ Cardinality(Created) = n0 + spawned
\* "Supply is the sum over all children, utilisation and allocation the mean over those
\*  that have supply (1.0 if none)"
Aggregates == act.name = "Read" =>
    /\ obs.supply = TotalSupply /\ obs.demand = demand
    /\ obs.u = Mean("u") /\ obs.a = Mean("a")
=============================================================================
