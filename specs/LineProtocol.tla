------------------------------ MODULE LineProtocol ------------------------------
(***************************************************************************)
(* cobald.monitor.format_line (property C17, line protocol half).           *)
(*                                                                         *)
(* Text is a sequence of character codes (ASCII ordinals; NA stands for any *)
(* non-ASCII character).  A record is                                       *)
(*   name   text                                                            *)
(*   cfg    [kind : "none" | "set" | "dict", keys : Seq(text),              *)
(*           defaults : Seq(<<key, valuekind, value>>)]   formatter config  *)
(*   args   Seq(<<key, valuekind, value>>)   the monitor record's mapping   *)
(*          valuekind "str" | "int" (n) | "half" (n + 1/2) | "whole" (n.0) | "bool" *)
(*   created (whole seconds), res (resolution in seconds, 0 = no timestamp) *)
(*                                                                         *)
(* Format transcribes line_protocol()/LineProtocolFormatter.format() as     *)
(* they are meant to work; Parse is an INDEPENDENT reference decoder        *)
(* written from the InfluxDB line-protocol grammar.  The property is that   *)
(* Parse(observed line) is the record, and it is evaluated on the line the  *)
(* real formatter produced.                                                 *)
(***************************************************************************)
EXTENDS Integers, Sequences, FiniteSets, TLC

SP == 32  COMMA == 44  EQ == 61  DQ == 34  SQ == 39  BS == 92  NL == 10  NA == 200
DOT == 46  MINUS == 45  LI == 105

VARIABLES rec, line, act
vars == <<rec, line, act>>

\* ------------------------------------------------------------ text helpers
RECURSIVE Digits(_)
Digits(n) == IF n < 10 THEN <<48 + n>> ELSE Append(Digits(n \div 10), 48 + (n % 10))
IntText(n) == IF n < 0 THEN <<MINUS>> \o Digits(0 - n) ELSE Digits(n)
TrueText == <<84, 114, 117, 101>>
FalseText == <<70, 97, 108, 115, 101>>
ValueText(kind, v) ==
    CASE kind = "str" -> v
      [] kind = "int" -> IntText(v)
      [] kind = "half" -> IntText(v) \o <<DOT, 53>>
      [] kind = "whole" -> IntText(v) \o <<DOT, 48>>       \* a float with an integral value: "1.0"
      [] kind = "bool" -> IF v THEN TrueText ELSE FalseText

RECURSIVE Escape(_, _)
\* put a backslash before every character of s that is in the set esc
Escape(s, esc) == IF s = <<>> THEN <<>>
                  ELSE (IF Head(s) \in esc THEN <<BS, Head(s)>> ELSE <<Head(s)>>) \o Escape(Tail(s), esc)

RECURSIVE Join(_, _)
Join(parts, sep) == IF parts = <<>> THEN <<>>
                    ELSE IF Len(parts) = 1 THEN parts[1]
                    ELSE parts[1] \o <<sep>> \o Join(Tail(parts), sep)

\* ------------------------------------------------------------ the documented split
Keys(items) == {items[i][1] : i \in 1..Len(items)}
Lookup(items, k) == items[CHOOSE i \in 1..Len(items) : items[i][1] = k]
Whitelist(cfg) == IF cfg.kind = "none" THEN {} ELSE
                  IF cfg.kind = "set" THEN {cfg.keys[i] : i \in 1..Len(cfg.keys)} ELSE Keys(cfg.defaults)
Defaults(cfg) == IF cfg.kind = "dict" THEN cfg.defaults ELSE <<>>
\* tags: configured defaults, overridden by whitelisted record values; as a set of <<key, text>>
ExpTags(r) ==
    LET wl == Whitelist(r.cfg)  df == Defaults(r.cfg) IN
    {<<k, ValueText(Lookup(r.args, k)[2], Lookup(r.args, k)[3])>> : k \in wl \cap Keys(r.args)}
    \cup {<<k, ValueText(Lookup(df, k)[2], Lookup(df, k)[3])>> : k \in Keys(df) \ Keys(r.args)}
\* fields: the remaining items, as a set of <<key, class, value>>, numbers by value
NumVal(kind, v) == IF kind \in {"int", "whole"} THEN <<v, <<>>>> ELSE <<v, <<53>>>>
ExpFields(r) ==
    {LET it == Lookup(r.args, k) IN
       IF it[2] = "str" THEN <<k, "str", it[3]>>
       ELSE IF it[2] = "bool" THEN <<k, "bool", it[3]>>
       ELSE <<k, "num", NumVal(it[2], it[3])>> : k \in Keys(r.args) \ Whitelist(r.cfg)}
ExpTime(r) == IF r.res = 0 THEN 0 - 1 ELSE (r.created \div r.res) * r.res

\* ------------------------------------------------------------ Format (format_line.py)
KeyEsc == {COMMA, EQ, SP}
SortedKeys(S) == S      \* the order of tags/fields is not part of the property
RECURSIVE SeqOfSet(_)
SeqOfSet(S) == IF S = {} THEN <<>> ELSE LET x == CHOOSE y \in S : TRUE IN <<x>> \o SeqOfSet(S \ {x})
FieldText(kind, v) ==
    IF kind = "str" THEN <<DQ>> \o Escape(v, {BS, DQ}) \o <<DQ>> ELSE ValueText(kind, v)
Format(r) ==
    LET tags == SeqOfSet(ExpTags(r))
        fkeys == SeqOfSet(Keys(r.args) \ Whitelist(r.cfg))
        tagpart == [i \in 1..Len(tags) |-> Escape(tags[i][1], KeyEsc) \o <<EQ>> \o Escape(tags[i][2], KeyEsc)]
        fldpart == [i \in 1..Len(fkeys) |->
                       LET it == Lookup(r.args, fkeys[i]) IN Escape(it[1], KeyEsc) \o <<EQ>> \o FieldText(it[2], it[3])]
    IN Escape(r.name, {COMMA, SP})
       \o (IF tags = <<>> THEN <<>> ELSE <<COMMA>> \o Join(tagpart, COMMA))
       \o <<SP>> \o Join(fldpart, COMMA)
       \o (IF r.res = 0 THEN <<>> ELSE <<SP>> \o Digits(ExpTime(r)))      \* seconds; the nine zeros are checked by the driver
       \o <<NL>>

\* ------------------------------------------------------------ Parse (reference decoder)
\* scan from position i up to an unescaped stop character; \x is x when x is escapable
RECURSIVE Scan(_, _, _, _, _)
Scan(s, i, stops, escapable, acc) ==
    IF i > Len(s) THEN [tok |-> acc, at |-> i]
    ELSE IF s[i] = BS /\ i < Len(s) /\ s[i + 1] \in escapable THEN Scan(s, i + 2, stops, escapable, Append(acc, s[i + 1]))
    ELSE IF s[i] \in stops THEN [tok |-> acc, at |-> i]
    ELSE Scan(s, i + 1, stops, escapable, Append(acc, s[i]))

\* quoted string field starting after the opening quote
RECURSIVE ScanQuoted(_, _, _)
ScanQuoted(s, i, acc) ==
    IF i > Len(s) THEN [tok |-> acc, at |-> i, closed |-> FALSE]
    ELSE IF s[i] = BS /\ i < Len(s) /\ s[i + 1] \in {BS, DQ} THEN ScanQuoted(s, i + 2, Append(acc, s[i + 1]))
    ELSE IF s[i] = DQ THEN [tok |-> acc, at |-> i + 1, closed |-> TRUE]
    ELSE ScanQuoted(s, i + 1, Append(acc, s[i]))

IsDigit(c) == c >= 48 /\ c <= 57
RECURSIVE ToNat(_, _)
ToNat(ds, acc) == IF ds = <<>> THEN acc ELSE ToNat(Tail(ds), acc * 10 + (Head(ds) - 48))
RECURSIVE StripZeros(_)
StripZeros(ds) == IF ds # <<>> /\ ds[Len(ds)] = 48 THEN StripZeros(SubSeq(ds, 1, Len(ds) - 1)) ELSE ds
BoolTexts == {<<116>>, <<84>>, <<116, 114, 117, 101>>, TrueText, <<84, 82, 85, 69>>,
              <<102>>, <<70>>, <<102, 97, 108, 115, 101>>, FalseText, <<70, 65, 76, 83, 69>>}
IsTrue(t) == t \in {<<116>>, <<84>>, <<116, 114, 117, 101>>, TrueText, <<84, 82, 85, 69>>}
\* number: [-]digits[.digits][i]  ->  <<integer part, fraction digits without trailing zeros>>
ParseNum(t) ==
    LET neg == t # <<>> /\ t[1] = MINUS
        body0 == IF neg THEN Tail(t) ELSE t
        body == IF body0 # <<>> /\ body0[Len(body0)] = LI THEN SubSeq(body0, 1, Len(body0) - 1) ELSE body0
        dot == {i \in 1..Len(body) : body[i] = DOT}
        ip == IF dot = {} THEN body ELSE SubSeq(body, 1, (CHOOSE i \in dot : TRUE) - 1)
        fp == IF dot = {} THEN <<>> ELSE SubSeq(body, (CHOOSE i \in dot : TRUE) + 1, Len(body))
        ok == /\ Cardinality(dot) <= 1 /\ ip # <<>> /\ \A i \in 1..Len(ip) : IsDigit(ip[i])
              /\ \A i \in 1..Len(fp) : IsDigit(fp[i])
    IN IF ok THEN <<(IF neg THEN 0 - 1 ELSE 1) * ToNat(ip, 0), StripZeros(fp)>> ELSE <<0 - 999999, t>>

RECURSIVE ParseTags(_, _, _)
\* at a COMMA: more tags; returns [tags, at, ok]
ParseTags(s, i, acc) ==
    IF i <= Len(s) /\ s[i] = COMMA
    THEN LET k == Scan(s, i + 1, {EQ, COMMA, SP}, KeyEsc, <<>>) IN
         IF k.at > Len(s) \/ s[k.at] # EQ THEN [tags |-> acc, at |-> k.at, ok |-> FALSE]
         ELSE LET v == Scan(s, k.at + 1, {COMMA, SP}, KeyEsc, <<>>) IN
              ParseTags(s, v.at, acc \cup {<<k.tok, v.tok>>})
    ELSE [tags |-> acc, at |-> i, ok |-> TRUE]

RECURSIVE ParseFields(_, _, _)
ParseFields(s, i, acc) ==
    LET k == Scan(s, i, {EQ, COMMA, SP}, KeyEsc, <<>>) IN
    IF k.at > Len(s) \/ s[k.at] # EQ \/ k.at + 1 > Len(s) THEN [fields |-> acc, at |-> k.at, ok |-> FALSE]
    ELSE LET j == k.at + 1 IN
         IF s[j] = DQ
         THEN LET q == ScanQuoted(s, j + 1, <<>>)
                  acc2 == acc \cup {<<k.tok, "str", q.tok>>} IN
              IF ~q.closed THEN [fields |-> acc2, at |-> q.at, ok |-> FALSE]
              ELSE IF q.at <= Len(s) /\ s[q.at] = COMMA THEN ParseFields(s, q.at + 1, acc2)
              ELSE [fields |-> acc2, at |-> q.at, ok |-> TRUE]
         ELSE LET v == Scan(s, j, {COMMA, SP, NL}, {}, <<>>)
                  val == IF v.tok \in BoolTexts THEN <<k.tok, "bool", IsTrue(v.tok)>> ELSE <<k.tok, "num", ParseNum(v.tok)>>
                  acc2 == acc \cup {val} IN
              IF v.at <= Len(s) /\ s[v.at] = COMMA THEN ParseFields(s, v.at + 1, acc2)
              ELSE [fields |-> acc2, at |-> v.at, ok |-> TRUE]

Bad == [ok |-> FALSE, name |-> <<>>, tags |-> {}, fields |-> {}, time |-> 0 - 2]
Parse(s) ==
    LET m == Scan(s, 1, {COMMA, SP}, {COMMA, SP}, <<>>) IN
    IF m.tok = <<>> \/ m.at > Len(s) THEN Bad
    ELSE LET t == ParseTags(s, m.at, {}) IN
         IF ~t.ok \/ t.at > Len(s) \/ s[t.at] # SP THEN Bad
         ELSE LET f == ParseFields(s, t.at + 1, {}) IN
              IF ~f.ok \/ f.at > Len(s) THEN Bad
              ELSE IF s[f.at] = NL /\ f.at = Len(s)
                   THEN [ok |-> TRUE, name |-> m.tok, tags |-> t.tags, fields |-> f.fields, time |-> 0 - 1]
              ELSE IF s[f.at] = SP
                   THEN LET ts == SubSeq(s, f.at + 1, Len(s) - 1) IN
                        IF s[Len(s)] = NL /\ ts # <<>> /\ \A i \in 1..Len(ts) : IsDigit(ts[i])
                        THEN [ok |-> TRUE, name |-> m.tok, tags |-> t.tags, fields |-> f.fields, time |-> ToNat(ts, 0)]
                        ELSE Bad
              ELSE Bad

\* ------------------------------------------------------------ state machine
NoLine == <<>>
InitWith(r) == rec = r /\ line = NoLine /\ act = "Init"
Emit == /\ act = "Init" /\ line' = Format(rec) /\ act' = "Emit" /\ UNCHANGED rec
Next == Emit
Init == FALSE

\* ------------------------------------------------------------ properties (on the emitted line)
Emitted == act = "Emit"
\* "a single newline-terminated line"
OneLine == Emitted => (line # <<>> /\ line[Len(line)] = NL /\ \A i \in 1..(Len(line) - 1) : line[i] # NL)
\* "that a standard line-protocol parser decodes to exactly the reported measurement name, the
\*  tags ..., the remaining fields with their values and types, and the record time rounded
\*  down to the configured resolution"
P == Parse(line)
Decodes == Emitted => P.ok
NameExact == (Emitted /\ P.ok) => P.name = rec.name
TagsExact == (Emitted /\ P.ok) => P.tags = ExpTags(rec)
FieldsExact == (Emitted /\ P.ok) => P.fields = ExpFields(rec)
TimeRoundedDown == (Emitted /\ P.ok) => P.time = ExpTime(rec)
=============================================================================
