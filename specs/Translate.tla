------------------------------- MODULE Translate -------------------------------
(***************************************************************************)
(* cobald.daemon.config.mapping.Translator.translate_hierarchy (C19).       *)
(*                                                                         *)
(* A configuration tree is a nested tuple                                   *)
(*   <<"S", k>>                 scalar (opaque token k)                     *)
(*   <<"L", <<t1, .., tn>>>>    list                                        *)
(*   <<"M", <<<<key, t>>, ..>>>>  mapping without __type__ (insertion order)*)
(*   <<"T", kind, <<<<key, t>>, ..>>>>  mapping WITH __type__; kind says    *)
(*        what its factory does: "ok" | "raises" (called, raises) |         *)
(*        "noload" (cannot be resolved, never called).  The key "__args__"  *)
(*        (value: an "L" tree) holds the positional arguments.              *)
(* A path is a sequence of <<"k", key>> / <<"i", index>> elements (0-based  *)
(* indices, as in the code's where strings).                                *)
(*                                                                         *)
(* Eval transcribes the recursion of mapping.py:41-73 including its         *)
(* evaluation order (mapping items in insertion order, list items last to   *)
(* first, a node's factory after all of its items) and its error wrapping   *)
(* (the error location is the path of the node whose factory failed).       *)
(* The state machine makes one step per factory call, then Finish.          *)
(***************************************************************************)
EXTENDS Naturals, Sequences, FiniteSets, TLC

CONSTANTS Trees,        \* set of trees to explore (models enumerate with nested \E)
          MaxRuns       \* how often the same configuration object is translated

VARIABLES tree, calls, result, runs
vars == <<tree, calls, result, runs>>

Kind(t) == t[1]
ArgsKey == "__args__"

Obj(path) == <<"O", path>>      \* the object the factory of the node at path returned

\* ---- Subst: the documented result, independent of evaluation order ----
RECURSIVE Subst(_, _)
SubstItems(items, path) ==
    [i \in 1..Len(items) |-> <<items[i][1], Subst(items[i][2], Append(path, <<"k", items[i][1]>>))>>]
Subst(t, path) ==
    CASE Kind(t) = "S" -> t
      [] Kind(t) = "L" -> <<"L", [i \in 1..Len(t[2]) |-> Subst(t[2][i], Append(path, <<"i", i - 1>>))]>>
      [] Kind(t) = "M" -> <<"M", SubstItems(t[2], path)>>
      [] Kind(t) = "T" -> Obj(path)

\* what the factory of a T node must receive
ArgsOf(t, path) ==
    LET its == SubstItems(t[3], path)
        idx == {i \in 1..Len(its) : its[i][1] = ArgsKey}
    IN IF idx = {} THEN <<>> ELSE its[CHOOSE i \in idx : TRUE][2][2]
KwOf(t, path) ==
    LET its == SubstItems(t[3], path)
    IN {<<its[i][1], its[i][2]>> : i \in {j \in 1..Len(its) : its[j][1] # ArgsKey}}

\* ---- all T nodes of a tree, by path ----
RECURSIVE Nodes(_, _)
NodesItems(items, path) ==
    UNION {Nodes(items[i][2], Append(path, <<"k", items[i][1]>>)) : i \in 1..Len(items)}
Nodes(t, path) ==
    CASE Kind(t) = "S" -> {}
      [] Kind(t) = "L" -> UNION {Nodes(t[2][i], Append(path, <<"i", i - 1>>)) : i \in 1..Len(t[2])}
      [] Kind(t) = "M" -> NodesItems(t[2], path)
      [] Kind(t) = "T" -> {[path |-> path, node |-> t]} \cup NodesItems(t[3], path)

TNodes == Nodes(tree, <<>>)
NodeAt(p) == (CHOOSE n \in TNodes : n.path = p).node
FailPaths == {n.path : n \in {m \in TNodes : m.node[2] # "ok"}}

\* ---- Eval: the code's recursion with its order and error wrapping ----
\* returns [ok, calls (sequence of node paths whose factory was CALLED), where]
RECURSIVE Eval(_, _)
RECURSIVE EvalItems(_, _, _, _)
\* mapping items, in insertion order, starting at index i with calls so far
EvalItems(items, path, i, acc) ==
    IF i > Len(items) THEN [ok |-> TRUE, calls |-> acc, where |-> <<>>]
    ELSE LET r == Eval(items[i][2], Append(path, <<"k", items[i][1]>>))
         IN IF r.ok THEN EvalItems(items, path, i + 1, acc \o r.calls)
            ELSE [ok |-> FALSE, calls |-> acc \o r.calls, where |-> r.where]
RECURSIVE EvalList(_, _, _, _)
\* list items, LAST to first
EvalList(xs, path, i, acc) ==
    IF i < 1 THEN [ok |-> TRUE, calls |-> acc, where |-> <<>>]
    ELSE LET r == Eval(xs[i], Append(path, <<"i", i - 1>>))
         IN IF r.ok THEN EvalList(xs, path, i - 1, acc \o r.calls)
            ELSE [ok |-> FALSE, calls |-> acc \o r.calls, where |-> r.where]
Eval(t, path) ==
    CASE Kind(t) = "S" -> [ok |-> TRUE, calls |-> <<>>, where |-> <<>>]
      [] Kind(t) = "L" -> EvalList(t[2], path, Len(t[2]), <<>>)
      [] Kind(t) = "M" -> EvalItems(t[2], path, 1, <<>>)
      [] Kind(t) = "T" ->
            LET r == EvalItems(t[3], path, 1, <<>>)
            IN IF ~r.ok THEN r
               ELSE IF t[2] = "ok" THEN [ok |-> TRUE, calls |-> Append(r.calls, path), where |-> <<>>]
               ELSE IF t[2] = "raises" THEN [ok |-> FALSE, calls |-> Append(r.calls, path), where |-> path]
               ELSE [ok |-> FALSE, calls |-> r.calls, where |-> path]

Expected == Eval(tree, <<>>)

\* ---- the state machine ----
Running == [state |-> "running"]

InitWith(t) == /\ tree = t /\ calls = <<>> /\ result = Running /\ runs = 1
Init == \E t \in Trees : InitWith(t)

\* a factory is called: c = [n |-> path, args |-> <<..>>, kw |-> {<<key, val>>, ..}]
Call(c) == /\ result = Running
           /\ Len(calls) < Len(Expected.calls)
           /\ c.n = Expected.calls[Len(calls) + 1]
           /\ c.args = ArgsOf(NodeAt(c.n), c.n)
           /\ c.kw = KwOf(NodeAt(c.n), c.n)
           /\ calls' = Append(calls, c)
           /\ UNCHANGED <<tree, result, runs>>

Finish(r) == /\ result = Running
             /\ Len(calls) = Len(Expected.calls)
             /\ r = IF Expected.ok THEN [state |-> "ok", val |-> Subst(tree, <<>>)]
                    ELSE [state |-> "cfgerr", where |-> Expected.where]
             /\ result' = r
             /\ UNCHANGED <<tree, calls, runs>>

\* the same configuration object is translated again (a reload, a retry after an error):
\* translation has no memory, the second run behaves exactly like the first
Again == /\ result # Running
         /\ calls' = <<>> /\ result' = Running /\ runs' = runs + 1
         /\ UNCHANGED tree

NextCall == Expected.calls[Len(calls) + 1]
Next == \/ /\ Len(calls) < Len(Expected.calls)
           /\ Call([n |-> NextCall, args |-> ArgsOf(NodeAt(NextCall), NextCall), kw |-> KwOf(NodeAt(NextCall), NextCall)])
        \/ Finish(IF Expected.ok THEN [state |-> "ok", val |-> Subst(tree, <<>>)]
                  ELSE [state |-> "cfgerr", where |-> Expected.where])
        \/ (runs < MaxRuns /\ Again)

Spec == Init /\ [][Next]_vars

-----------------------------------------------------------------------------
Final == result.state # "running"
CalledPaths == {calls[i].n : i \in 1..Len(calls)}
IsPrefix(p, q) == Len(p) <= Len(q) /\ SubSeq(q, 1, Len(p)) = p
Idx(p) == CHOOSE i \in 1..Len(calls) : calls[i].n = p

\* "leaves plain data unchanged and replaces every mapping that has a __type__ key ...
\*  by the result of calling the named factory"
OutExact == result.state = "ok" => result.val = Subst(tree, <<>>)

\* "exactly once"
OncePerTyped ==
    /\ \A i, j \in 1..Len(calls) : calls[i].n = calls[j].n => i = j
    /\ \A i \in 1..Len(calls) : \E n \in TNodes : n.path = calls[i].n
    /\ result.state = "ok" => CalledPaths = {n.path : n \in TNodes}

\* "with its __args__ as positional and its remaining items as keyword arguments"
ArgsExact == \A i \in 1..Len(calls) :
    (\E n \in TNodes : n.path = calls[i].n) =>
        /\ calls[i].args = ArgsOf(NodeAt(calls[i].n), calls[i].n)
        /\ calls[i].kw = KwOf(NodeAt(calls[i].n), calls[i].n)

\* "after all of its children have been translated"
ChildrenFirst == \A i \in 1..Len(calls) : \A n \in TNodes :
    (n.path # calls[i].n /\ IsPrefix(calls[i].n, n.path)) =>
        (n.path \in CalledPaths /\ Idx(n.path) < i)

\* p is translated before q because they sit in two items of one list, p in the later one
ListBefore(p, q) == \E k \in 1..Len(p) : /\ k <= Len(q) /\ SubSeq(p, 1, k - 1) = SubSeq(q, 1, k - 1)
                                         /\ p[k][1] = "i" /\ q[k][1] = "i" /\ p[k][2] > q[k][2]
\* "within a list, later items before earlier ones"
ListLaterFirst == \A i, j \in 1..Len(calls) :
    LET p == calls[i].n  q == calls[j].n IN
    (\E k \in 1..Len(p) : /\ k <= Len(q) /\ SubSeq(p, 1, k - 1) = SubSeq(q, 1, k - 1)
                          /\ p[k][1] = "i" /\ q[k][1] = "i" /\ p[k][2] > q[k][2]) => i < j

\* "Any failure to resolve or call a factory is reported as a configuration error whose
\*  location is the exact path ... leading to the offending element"
FailureReported == Final => (FailPaths # {} <=> result.state = "cfgerr")
ErrorIsConfigurationError == result.state \in {"running", "ok", "cfgerr"}
WhereIsExactPath ==
    result.state = "cfgerr" =>
        /\ result.where \in FailPaths
        \* the offending element is the one whose factory was reached: everything below it
        \* has been translated, and if its factory could be called it was the last call
        /\ \A n \in TNodes : (n.path # result.where /\ IsPrefix(result.where, n.path)) => n.path \in CalledPaths
        /\ NodeAt(result.where)[2] = "raises" => (calls # <<>> /\ calls[Len(calls)].n = result.where)
        /\ NodeAt(result.where)[2] = "noload" => result.where \notin CalledPaths
        \* ... and it is the failure that was REACHED: no other failing element sits in a later
        \* item of a list that the offending element is in an earlier item of ("later items
        \* before earlier ones": that one would have been reached - and reported - first)
        /\ \A f \in FailPaths : ~ListBefore(f, result.where)
=============================================================================
