---------------------------- MODULE DecoratorsTrace ----------------------------
(* Traces of real decorator stacks against Decorators.tla.                               *)
(* Trace = {stack:[kinds], pool:{supply,demand,util,alloc}, events:[..]}                  *)
(*  {e:"Write", v, pd, nw, L:[{sd,pend}..], recs:[{layer,value,d,s,u,a,                   *)
(*        pre:[d,s,u,a], emitd, late:[value,d,s,u,a], nameok, levelok}..]}                *)
(*  {e:"Read", d, s, u, a, L}  {e:"PoolChange", attr, v}  {e:"NewLogger", fields, outcome} *)
EXTENDS Decorators, SequencesExt, Json, IOUtils, TLCExt

Traces == JsonDeserialize(IOEnv.TRACE_FILE)
NT == Len(Traces)
VARIABLES tid, l, nc, xrecs
tvars == <<vars, tid, l, nc, xrecs>>
Tr == Traces[tid]
Ev == Tr.events[l]

TraceInit == /\ tid \in 1..NT /\ l = 1 /\ nc = FALSE /\ xrecs = <<>>
             /\ InitWith(Traces[tid].stack, Traces[tid].pool)
Step == l <= Len(Tr.events) /\ l' = l + 1 /\ UNCHANGED tid

Proj(r) == [layer |-> r.layer, value |-> r.value, d |-> r.d, s |-> r.s, u |-> r.u, a |-> r.a]

TWrite == /\ Ev.e = "Write"
          /\ pool' = [pool EXCEPT !.demand = Ev.pd]
          /\ lay' = [i \in 1..N |-> Ev.L[i]]
          /\ recs' = [k \in 1..Len(Ev.recs) |-> Proj(Ev.recs[k])]
          /\ xrecs' = Ev.recs
          /\ nw' = Ev.nw
          /\ act' = [name |-> "Write", v |-> Ev.v, attr |-> ""]
          /\ UNCHANGED <<stack, obs, tmpl>>
          /\ nc' = (nc \/ ~Write(Ev.v))
TRead == /\ Ev.e = "Read"
         /\ obs' = [d |-> Ev.d, s |-> Ev.s, u |-> Ev.u, a |-> Ev.a]
         /\ lay' = [i \in 1..N |-> Ev.L[i]]
         /\ recs' = <<>> /\ xrecs' = <<>> /\ nw' = 0
         /\ act' = [name |-> "Read", v |-> 0, attr |-> ""]
         /\ UNCHANGED <<stack, pool, tmpl>>
         /\ nc' = (nc \/ ~Read)
TPool == Ev.e = "PoolChange" /\ PoolChange(Ev.attr, Ev.v) /\ xrecs' = <<>> /\ UNCHANGED nc
TNew == /\ Ev.e = "NewLogger"
        /\ tmpl' = Ev.outcome
        /\ recs' = <<>> /\ xrecs' = <<>> /\ nw' = 0
        /\ act' = [name |-> "NewLogger", v |-> 0, attr |-> ""]
        /\ UNCHANGED <<stack, pool, lay, obs>>
        /\ nc' = (nc \/ ~NewLogger(ToSet(Ev.fields)))

TRename == Ev.e = "Rename" /\ Rename(Ev.layer) /\ xrecs' = <<>> /\ UNCHANGED nc
TraceNext == Step /\ (TWrite \/ TRead \/ TPool \/ TNew \/ TRename)
TraceSpec == TraceInit /\ [][TraceNext]_tvars

\* record clauses evaluated on the observed fields
RecordCarriesOldState == \A k \in 1..Len(xrecs) :
    /\ <<xrecs[k].d, xrecs[k].s, xrecs[k].u, xrecs[k].a>> = xrecs[k].pre
    \* (the deprecated field "consumption" is another name for the allocation)
    /\ xrecs[k].c = xrecs[k].pre[4]
    /\ xrecs[k].late = <<xrecs[k].value, xrecs[k].d, xrecs[k].s, xrecs[k].u, xrecs[k].a>>
RecordBeforeWrite == \A k \in 1..Len(xrecs) : xrecs[k].emitd = xrecs[k].pre[1]
OnConfiguredLoggerAndLevel == \A k \in 1..Len(xrecs) : xrecs[k].nameok /\ xrecs[k].levelok
PrevEv == Tr.events[l - 1]
TemplateOk == (l > 1 /\ PrevEv.e = "NewLogger") =>
    tmpl = (IF ToSet(PrevEv.fields) \subseteq KnownFields THEN "ok" ELSE "rejected")

Mon(name, ok) == ok \/ PrintT(<<"PV", tid, l - 1, name>>)
Monitor ==
    /\ Mon("FitnessTransparent", FitnessTransparent)
    /\ Mon("DemandTransparent", DemandTransparent)
    /\ Mon("OneRecordPerWrite", OneRecordPerWrite /\ NoStrayRecords)
    /\ Mon("RecordCarriesValue", RecordCarriesValue)
    /\ Mon("RecordCarriesOldState", RecordCarriesOldState)
    /\ Mon("RecordBeforeWrite", RecordBeforeWrite)
    /\ Mon("OnConfiguredLoggerAndLevel", OnConfiguredLoggerAndLevel)
    /\ Mon("TemplateValidated", TemplateOk)
    /\ (l <= Len(Tr.events) \/ PrintT(<<"END", tid, l - 1, nc>>))
NCMonitor == (nc' /\ ~nc) => PrintT(<<"NC", tid, l, Ev.e>>)
=============================================================================
