----------------------------- MODULE JsonMergeTrace -----------------------------
(* Traces: {rec:{defaults,addtime,data}, out:[[key,token]..], object:bool}                 *)
EXTENDS JsonMerge, SequencesExt, Json, IOUtils, TLCExt
Traces == JsonDeserialize(IOEnv.TRACE_FILE)
NT == Len(Traces)
VARIABLES tid, l, nc, isobj
tvars == <<vars, tid, l, nc, isobj>>
TraceInit == /\ tid \in 1..NT /\ l = 1 /\ nc = FALSE /\ isobj = TRUE /\ InitWith(Traces[tid].rec)
TEmit == /\ l = 1 /\ l' = 2 /\ UNCHANGED <<tid, jrec>>
         /\ out' = ToSet(Traces[tid].out) /\ act' = "Emit" /\ isobj' = Traces[tid].object
         /\ nc' = ~Emit
TraceNext == TEmit
TraceSpec == TraceInit /\ [][TraceNext]_tvars
Mon(name, ok) == ok \/ PrintT(<<"PV", tid, l - 1, name>>)
Monitor == /\ Mon("SingleJsonObject", isobj)
           /\ Mon("MergeOrder", MergeOrder)
           /\ (l <= 1 \/ PrintT(<<"END", tid, l - 1, nc>>))
NCMonitor == (nc' /\ ~nc) => PrintT(<<"NC", tid, l, "Emit">>)
=============================================================================
