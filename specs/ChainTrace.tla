------------------------------- MODULE ChainTrace -------------------------------
(* Traces: {n, tail, expr, result, log:[..], argsok} - what evaluating the Python expression *)
(* built from expr over recording classes produced (result as nested {t,i,target}).         *)
EXTENDS Chain, Json, IOUtils, TLCExt
Traces == JsonDeserialize(IOEnv.TRACE_FILE)
NT == Len(Traces)
VARIABLES tid, l, nc
tvars == <<vars, tid, l, nc>>
TraceInit == /\ tid \in 1..NT /\ l = 1 /\ nc = FALSE
             /\ InitWith(Traces[tid].n, Traces[tid].tail, Traces[tid].expr)
TEval == /\ l = 1 /\ l' = 2 /\ UNCHANGED <<tid, n, tail, expr>>
         /\ result' = Traces[tid].result /\ log' = Traces[tid].log /\ argsok' = Traces[tid].argsok
         /\ act' = "Evaluate"
         /\ nc' = ~Evaluate
TraceNext == TEval
TraceSpec == TraceInit /\ [][TraceNext]_tvars
Mon(name, ok) == ok \/ PrintT(<<"PV", tid, l - 1, name>>)
Monitor == /\ Mon("Associative", Associative)
           /\ Mon("OnceLastToFirst", OnceLastToFirst)
           /\ Mon("ArgsInOrder", ArgsInOrder)
           /\ (l <= 1 \/ PrintT(<<"END", tid, l - 1, nc>>))
NCMonitor == (nc' /\ ~nc) => PrintT(<<"NC", tid, l, "Evaluate">>)
=============================================================================
