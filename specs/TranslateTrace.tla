---------------------------- MODULE TranslateTrace ----------------------------
(* Traces of the real Translator.translate_hierarchy against Translate.tla.       *)
(* Trace = {tree, events:[{e:"Call", n, args, kw} ..., {e:"End", state, val|where}]} *)
EXTENDS Translate, SequencesExt, Json, IOUtils, TLCExt

Traces == JsonDeserialize(IOEnv.TRACE_FILE)
NT == Len(Traces)

VARIABLES tid, l, nc
tvars == <<vars, tid, l, nc>>
Tr == Traces[tid]
Ev == Tr.events[l]

TraceInit == /\ tid \in 1..NT /\ l = 1 /\ nc = FALSE /\ InitWith(Traces[tid].tree)
Step == l <= Len(Tr.events) /\ l' = l + 1 /\ UNCHANGED tid

TCall == /\ Ev.e = "Call"
         /\ LET c == [n |-> Ev.n, args |-> Ev.args, kw |-> ToSet(Ev.kw)] IN
            /\ calls' = Append(calls, c)
            /\ UNCHANGED <<tree, result, runs>>
            /\ nc' = (nc \/ ~(\E n \in TNodes : n.path = c.n) \/ ~Call(c))

TEnd == /\ Ev.e = "End"
        /\ result' = IF Ev.state = "ok" THEN [state |-> "ok", val |-> Ev.val]
                     ELSE IF Ev.state = "cfgerr" THEN [state |-> "cfgerr", where |-> Ev.where]
                     ELSE [state |-> "other"]
        /\ UNCHANGED <<tree, calls, runs>>
        /\ nc' = (nc \/ ~Finish(result'))

TAgain == /\ Ev.e = "Again" /\ Again /\ UNCHANGED nc

TraceNext == Step /\ (TCall \/ TEnd \/ TAgain)
TraceSpec == TraceInit /\ [][TraceNext]_tvars

Mon(name, ok) == ok \/ PrintT(<<"PV", tid, l - 1, name>>)
Monitor ==
    /\ Mon("OutExact", OutExact)
    /\ Mon("OncePerTyped", OncePerTyped)
    /\ Mon("ArgsExact", ArgsExact)
    /\ Mon("ChildrenFirst", ChildrenFirst)
    /\ Mon("ListLaterFirst", ListLaterFirst)
    /\ Mon("FailureReported", FailureReported)
    /\ Mon("ErrorIsConfigurationError", ErrorIsConfigurationError)
    /\ Mon("WhereIsExactPath", ErrorIsConfigurationError => WhereIsExactPath)
    /\ (l <= Len(Tr.events) \/ PrintT(<<"END", tid, l - 1, nc>>))
NCMonitor == (nc' /\ ~nc) => PrintT(<<"NC", tid, l, Ev.e>>)
=============================================================================
