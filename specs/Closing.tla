-------------------------------- MODULE Closing --------------------------------
(***************************************************************************)
(* The closing kernel of MetaRunner: a registration (adopt) racing the      *)
(* failure path _manage_runners -> _aclose_runners -> finally -> the end of  *)
(* asyncio.run, at the granularity of the verification hooks (companion of   *)
(* Registration.tla, which covers the start-up side).                        *)
(*                                                                         *)
(* The runtime is up (all runners created, `running` set, queues flushed).   *)
(* Main:   Fail        a payload fails; main arrives at     mr.aclose.begin  *)
(*         CloseAll    every runner is closed, `running` is cleared, then    *)
(*                     the runner table is cleared        -> mr.aclose.end   *)
(*         Finally     running.clear(); _runners.clear()  -> mr.running.clear*)
(*         End         asyncio.run() closes the loop, accept() raises        *)
(* A submitter is Lookup / Check / Queue / Direct as in Registration.tla;    *)
(* what Direct does depends on the flavour and on how far the close has got: *)
(*   runner alive                     the payload is handed over and started *)
(*   closed, trio                     discarded with a warning               *)
(*   closed, threading                a thread is started that nobody watches*)
(*   closed, asyncio, loop still open a task is created that nobody cancels  *)
(*   closed, asyncio, loop closed     discarded with a warning (before the   *)
(*                                    repair of F17: RuntimeError "Event     *)
(*                                    loop is closed" out of adopt)          *)
(***************************************************************************)
EXTENDS Naturals, FiniteSets, TLC

CONSTANTS Subs, FlavOf

VARIABLES mpc,        \* "up" | "closing" | "aclosed" | "finally" | "ended"
          table,      \* the runners are in self._runners
          alive,      \* the runners have not been closed yet
          running, loopopen,
          spc, sres,  \* submitter pc; what adopt did: "-" | "ok" | "unknown_runner"
          fate        \* "-" | "started" | "maybe" | "discarded" | "queued" | "unsupervised" | "abandoned"
vars == <<mpc, table, alive, running, loopopen, spc, sres, fate>>

Init == /\ mpc = "up" /\ table = TRUE /\ alive = TRUE /\ running = TRUE /\ loopopen = TRUE
        /\ spc = [s \in Subs |-> "start"] /\ sres = [s \in Subs |-> "-"] /\ fate = [s \in Subs |-> "-"]

Fail == mpc = "up" /\ mpc' = "closing" /\ UNCHANGED <<table, alive, running, loopopen, spc, sres, fate>>
CloseAll == /\ mpc = "closing" /\ mpc' = "aclosed"
            /\ alive' = FALSE /\ running' = FALSE /\ table' = FALSE
            /\ UNCHANGED <<loopopen, spc, sres, fate>>
Finally == /\ mpc = "aclosed" /\ mpc' = "finally" /\ running' = FALSE /\ table' = FALSE
           /\ UNCHANGED <<alive, loopopen, spc, sres, fate>>
End == /\ mpc = "finally" /\ mpc' = "ended" /\ loopopen' = FALSE
       /\ UNCHANGED <<table, alive, running, spc, sres, fate>>

Lookup(s) == /\ spc[s] = "start"
             /\ spc' = [spc EXCEPT ![s] = IF table THEN "hit" ELSE "miss"]
             /\ UNCHANGED <<mpc, table, alive, running, loopopen, sres, fate>>
Check(s) == /\ spc[s] = "miss"
            /\ IF running THEN spc' = [spc EXCEPT ![s] = "done"] /\ sres' = [sres EXCEPT ![s] = "unknown_runner"]
               ELSE spc' = [spc EXCEPT ![s] = "toqueue"] /\ UNCHANGED sres
            /\ UNCHANGED <<mpc, table, alive, running, loopopen, fate>>
Queue(s) == /\ spc[s] = "toqueue"
            /\ spc' = [spc EXCEPT ![s] = "done"] /\ sres' = [sres EXCEPT ![s] = "ok"]
            /\ fate' = [fate EXCEPT ![s] = "queued"]
            /\ UNCHANGED <<mpc, table, alive, running, loopopen>>
Direct(s) ==
    /\ spc[s] = "hit" /\ spc' = [spc EXCEPT ![s] = "done"]
    /\ LET f == FlavOf[s] IN
       IF alive THEN
           \* (handed to the loop while main stands at the beginning of the close: the task may be
           \*  cancelled before its first step)
           /\ sres' = [sres EXCEPT ![s] = "ok"]
           /\ fate' = [fate EXCEPT ![s] = IF f = "asyncio" /\ mpc = "closing" THEN "maybe" ELSE "started"]
       ELSE IF f = "trio" THEN sres' = [sres EXCEPT ![s] = "ok"] /\ fate' = [fate EXCEPT ![s] = "discarded"]
       ELSE IF f = "threading" THEN sres' = [sres EXCEPT ![s] = "ok"] /\ fate' = [fate EXCEPT ![s] = "unsupervised"]
       ELSE IF loopopen THEN sres' = [sres EXCEPT ![s] = "ok"] /\ fate' = [fate EXCEPT ![s] = "abandoned"]
       ELSE sres' = [sres EXCEPT ![s] = "ok"] /\ fate' = [fate EXCEPT ![s] = "discarded"]
    /\ UNCHANGED <<mpc, table, alive, running, loopopen>>

MainNext == Fail \/ CloseAll \/ Finally \/ End
SubNext(s) == Lookup(s) \/ Check(s) \/ Queue(s) \/ Direct(s)
Next == MainNext \/ \E s \in Subs : SubNext(s)
Spec == Init /\ [][Next]_vars /\ WF_vars(MainNext) /\ \A s \in Subs : WF_vars(SubNext(s))

-----------------------------------------------------------------------------
TypeOK == /\ mpc \in {"up", "closing", "aclosed", "finally", "ended"}
          /\ \A s \in Subs : spc[s] \in {"start", "hit", "miss", "toqueue", "done"}
\* the table never disappears while `running` is still set (the repair of F15): a registration
\* that misses its runner is queued, it is never told "unknown runner"
NoUnknownRunner == \A s \in Subs : sres[s] # "unknown_runner"
TableGoneOnlyWhenNotRunning == ~table => ~running
\* adopt never raises, however its steps interleave with the close
AdoptNeverRaises == \A s \in Subs : sres[s] \in {"-", "ok"}
\* a payload that is not started under supervision is discarded or queued, never left alone
\*                                                      (fails: F13 and its threading variant)
NeverLeftAlone == \A s \in Subs : fate[s] \notin {"unsupervised", "abandoned"}
Settles == <>[](mpc = "ended" /\ \A s \in Subs : spc[s] = "done")
=============================================================================
