--------------------------------- MODULE Chain ---------------------------------
(***************************************************************************)
(* Binding templates with >> (property C04, first half):                    *)
(*   interfaces/_partial.py  Partial.__rshift__, PartialBind.__rshift__     *)
(*                                                                         *)
(* A chain has elements 1..N; elements 1..N-1 are controller / decorator    *)
(* templates (element 1 may be a controller, the others are decorators),    *)
(* element N is the pool: an instance, a pool template, or a curried pool   *)
(* template (tail).  An expression is a parenthesisation of                 *)
(*      e1 >> e2 >> ... >> eN      as a nested tuple                         *)
(*      <<"E", i>>   |   <<"R", left, right>>                               *)
(* Python evaluates the left operand, then the right one, then applies      *)
(* left.__rshift__(right).  Values:                                         *)
(*   [t |-> "tpl", i]                          a Partial for element i      *)
(*   [t |-> "bind", parent, targets]           a PartialBind                *)
(*   [t |-> "obj", i, target]                  a constructed element        *)
(* The arguments of each element travel with its template; that they        *)
(* arrive unchanged and in order is observed by the driver and reported as  *)
(* argsok.  log is the order of constructor calls.                          *)
(***************************************************************************)
EXTENDS Naturals, Sequences, FiniteSets, TLC

VARIABLES n, tail, expr, result, log, argsok, act
vars == <<n, tail, expr, result, log, argsok, act>>

Tpl(i) == [t |-> "tpl", i |-> i]
Obj(i, target) == [t |-> "obj", i |-> i, target |-> target]
Bind(parent, targets) == [t |-> "bind", parent |-> parent, targets |-> targets]
NoTarget == [t |-> "none"]
IsLeaf(v) == v.t = "tpl" /\ v.i = n

\* all parenthesisations of e_lo >> ... >> e_hi
RECURSIVE Trees(_, _)
Trees(lo, hi) == IF lo = hi THEN {<<"E", lo>>}
                 ELSE UNION {{<<"R", l, r>> : l \in Trees(lo, k), r \in Trees(k + 1, hi)} : k \in lo..(hi - 1)}

\* ---- __rshift__, clause by clause; st = [v, log] ----
RECURSIVE Rshift(_, _, _)
RECURSIVE FoldTargets(_, _, _)
\* PartialBind.__rshift__(pool): bind the targets right to left (_partial.py:129-133)
FoldTargets(targets, pool, lg) ==
    IF targets = <<>> THEN [v |-> pool, log |-> lg]
    ELSE LET r == Rshift(targets[Len(targets)], pool, lg)
         IN FoldTargets(SubSeq(targets, 1, Len(targets) - 1), r.v, r.log)
Rshift(a, b, lg) ==
    IF a.t = "tpl"
    THEN IF b.t = "bind" THEN [v |-> Bind(a, <<b.parent>> \o b.targets), log |-> lg]          \* :86-87
         ELSE IF b.t = "tpl"
              THEN IF IsLeaf(b) THEN Rshift(a, Obj(n, NoTarget), Append(lg, n))                 \* :89-90
                   ELSE [v |-> Bind(a, <<b>>), log |-> lg]                                     \* :91
         ELSE [v |-> Obj(a.i, b), log |-> Append(lg, a.i)]                                     \* :93 target first
    ELSE IF a.t = "bind"
    THEN IF b.t = "obj"
         THEN LET r == FoldTargets(a.targets, b, lg) IN Rshift(a.parent, r.v, r.log)           \* :129-133
         ELSE IF IsLeaf(b) THEN Rshift(a, Obj(n, NoTarget), Append(lg, n))                      \* :134-135
         ELSE [v |-> Bind(a.parent, Append(a.targets, b)), log |-> lg]                          \* :137
    ELSE [v |-> [t |-> "error"], log |-> lg]       \* a constructed object has no >>

RECURSIVE Eval(_, _)
Eval(e, lg) ==
    IF e[1] = "E"
    THEN IF e[2] = n /\ tail = "instance" THEN [v |-> Obj(n, NoTarget), log |-> lg]   \* built before the expression
         ELSE [v |-> Tpl(e[2]), log |-> lg]
    ELSE LET l == Eval(e[2], lg) IN
         LET r == Eval(e[3], l.log) IN
         Rshift(l.v, r.v, r.log)

\* the hand-nested construction
RECURSIVE Nest(_)
Nest(i) == IF i = n THEN Obj(n, NoTarget) ELSE Obj(i, Nest(i + 1))
RECURSIVE Countdown(_)
Countdown(k) == IF k = 0 THEN <<>> ELSE <<k>> \o Countdown(k - 1)

InitWith(nn, tl, e) ==
    /\ n = nn /\ tail = tl /\ expr = e
    /\ result = [t |-> "pending"]
    /\ log = (IF tl = "instance" THEN <<nn>> ELSE <<>>)
    /\ argsok = TRUE /\ act = "Init"

Evaluate == /\ act = "Init"
            /\ LET r == Eval(expr, log) IN result' = r.v /\ log' = r.log
            /\ act' = "Evaluate"
            /\ UNCHANGED <<n, tail, expr, argsok>>
Next == Evaluate

-----------------------------------------------------------------------------
Done == act = "Evaluate"
\* "every grouping of the >> operators ... gives the same result as nesting the
\*  constructors by hand" and "the head element is returned"
Associative == Done => result = Nest(1)
\* "each element is constructed exactly once, last to first"
OnceLastToFirst == Done => log = Countdown(n)
\* "receiving the next element as its target followed by its positional arguments in the
\*  order given and its keyword arguments"
ArgsInOrder == argsok
=============================================================================
