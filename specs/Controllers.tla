------------------------------ MODULE Controllers ------------------------------
(***************************************************************************)
(* One regulation step of the four shipped controllers (property C08):      *)
(*   LinearController.regulate          controller/linear.py:36-40          *)
(*   RelativeSupplyController.regulate  controller/relative_supply.py:45-51 *)
(*   Stepwise.run (one iteration) + RangeSelector   controller/stepwise.py  *)
(*   DemandSwitch.regulate              controller/switch.py:61-66          *)
(* over a pool [supply, demand, util, alloc].                               *)
(*                                                                         *)
(* Units: supply and demand in SIXTEENTHS, utilisation / allocation /       *)
(* thresholds / scales / rate / interval in QUARTERS, so rate * interval    *)
(* and supply * scale / 4 are exact sixteenths (and exact Python floats).   *)
(*                                                                         *)
(* The scenario scn (controller kind and parameters) is chosen in Init.     *)
(*   linear   [kind, low, high, rate]                                       *)
(*   relative [kind, low, high, lscale, hscale]                             *)
(*   stepwise [kind, rules : Seq(<<threshold, id>>) in DECLARATION order,   *)
(*             base : id, res : [id -> NoneRes or a demand]]                *)
(*   switch   [kind, slaves : Seq(<<threshold, id>>) in DECLARATION order,  *)
(*             default : id, srate : [id -> rate]]  slaves are Linear       *)
(*             controllers with low = high = 2 quarters and rate srate[id]  *)
(* Environment actions change one attribute of the pool between steps.      *)
(***************************************************************************)
EXTENDS Integers, Sequences, FiniteSets, TLC

CONSTANTS Supplies, Demands, Fits, Intervals, DemandBound

NoneRes == 0 - 999999       \* a rule returned None

VARIABLES scn, pool, prev, act, called

vars == <<scn, pool, prev, act, called>>

\* ---------------- the controllers' decision rules ----------------
LinearDelta(low, high, rate, p, iv) ==
    IF p.util < low THEN 0 - iv * rate
    ELSE IF p.alloc > high THEN iv * rate
    ELSE 0

RelativeDemand(c, p) ==
    IF p.util < c.low THEN (p.supply * c.lscale) \div 4
    ELSE IF p.alloc > c.high THEN (p.supply * c.hscale) \div 4
    ELSE p.supply

\* greatest threshold not above x, else the default/base entry
Chosen(table, dflt, x) ==
    LET ok == {i \in 1..Len(table) : table[i][1] <= x}
    IN IF ok = {} THEN dflt
       ELSE table[CHOOSE i \in ok : \A j \in ok : table[j][1] <= table[i][1]][2]

StepDemand(p, iv) ==
    CASE scn.kind = "linear" -> p.demand + LinearDelta(scn.low, scn.high, scn.rate, p, iv)
      [] scn.kind = "relative" -> RelativeDemand(scn, p)
      [] scn.kind = "stepwise" ->
            LET r == scn.res[Chosen(scn.rules, scn.base, p.supply)]
            IN IF r = NoneRes THEN p.demand ELSE r
      [] scn.kind = "switch" ->
            LET s == Chosen(scn.slaves, scn.default, p.demand)
            IN p.demand + LinearDelta(2, 2, scn.srate[s], p, iv)

StepCalled(p) ==
    CASE scn.kind = "stepwise" -> <<Chosen(scn.rules, scn.base, p.supply)>>
      [] scn.kind = "switch" -> <<Chosen(scn.slaves, scn.default, p.demand)>>
      [] OTHER -> <<>>

InitWith(s, p) ==
    /\ scn = s /\ pool = p /\ prev = p
    /\ act = [name |-> "Init", iv |-> 0, attr |-> "", v |-> 0] /\ called = <<>>

Init == \E s \in {} : \E p \in {} : InitWith(s, p)   \* models supply their own Init

Step(iv) ==
    /\ pool' = [pool EXCEPT !.demand = StepDemand(pool, iv)]
    /\ prev' = pool
    /\ called' = StepCalled(pool)
    /\ act' = [name |-> "Step", iv |-> iv, attr |-> "", v |-> 0]
    /\ UNCHANGED scn

Set(attr, v) ==
    /\ pool' = [pool EXCEPT ![attr] = v]
    /\ prev' = pool
    /\ called' = <<>>
    /\ act' = [name |-> "Set", iv |-> 0, attr |-> attr, v |-> v]
    /\ UNCHANGED scn

Next == \/ \E iv \in Intervals : Step(iv)
        \/ \E v \in Supplies : Set("supply", v)
        \/ \E v \in Demands : Set("demand", v)
        \/ \E v \in Fits : Set("util", v)
        \/ \E v \in Fits : Set("alloc", v)

Bounded == pool.demand <= DemandBound /\ pool.demand >= 0 - DemandBound

-----------------------------------------------------------------------------
(* Properties: about the step that led to the current state (prev -> pool).  *)
IsStep == act.name = "Step"
Delta == pool.demand - prev.demand
Abs(x) == IF x < 0 THEN 0 - x ELSE x
OnlyDemandChanged == IsStep =>
    /\ pool.supply = prev.supply /\ pool.util = prev.util /\ pool.alloc = prev.alloc

\* LinearController
LinearBound == (IsStep /\ scn.kind = "linear") => Abs(Delta) <= scn.rate * act.iv
LinearDirection == (IsStep /\ scn.kind = "linear") =>
    /\ Delta < 0 => prev.util < scn.low
    /\ Delta > 0 => prev.alloc > scn.high
LinearExact == (IsStep /\ scn.kind = "linear") =>
    LET dn == prev.util < scn.low   up == prev.alloc > scn.high IN
    /\ (dn /\ ~up) => Delta = 0 - scn.rate * act.iv
    /\ (up /\ ~dn) => Delta = scn.rate * act.iv
    /\ (~up /\ ~dn) => Delta = 0

\* RelativeSupplyController: demand is supply times low_scale, high_scale or 1
RelativeExact == (IsStep /\ scn.kind = "relative") =>
    LET dn == prev.util < scn.low   up == prev.alloc > scn.high IN
    /\ (dn /\ ~up) => pool.demand * 4 = prev.supply * scn.lscale
    /\ (up /\ ~dn) => pool.demand * 4 = prev.supply * scn.hscale
    /\ (~up /\ ~dn) => pool.demand = prev.supply
    /\ (up /\ dn) => (pool.demand * 4 = prev.supply * scn.lscale \/ pool.demand * 4 = prev.supply * scn.hscale)

\* Stepwise
OneRuleOnce == (IsStep /\ scn.kind = "stepwise") => Len(called) = 1
RuleIsGreatestThresholdNotAbove == (IsStep /\ scn.kind = "stepwise" /\ Len(called) >= 1) =>
    \A i \in 1..Len(called) : called[i] = Chosen(scn.rules, scn.base, prev.supply)
RuleResultApplied == (IsStep /\ scn.kind = "stepwise" /\ Len(called) = 1 /\ called[1] \in DOMAIN scn.res) =>
    IF scn.res[called[1]] = NoneRes THEN pool.demand = prev.demand
    ELSE pool.demand = scn.res[called[1]]

\* DemandSwitch
OneSlaveOnce == (IsStep /\ scn.kind = "switch") => Len(called) = 1
SlaveIsGreatestThresholdNotAbove == (IsStep /\ scn.kind = "switch" /\ Len(called) >= 1) =>
    \A i \in 1..Len(called) : called[i] = Chosen(scn.slaves, scn.default, prev.demand)
\* the delegate (a linear controller) acted on the switch's own target
SlavesActOnSwitchTarget == (IsStep /\ scn.kind = "switch" /\ Len(called) = 1 /\ called[1] \in DOMAIN scn.srate) =>
    pool.demand = prev.demand + LinearDelta(2, 2, scn.srate[called[1]], prev, act.iv)
=============================================================================
