----------------------------- MODULE FactoryTrace -----------------------------
(* Traces of a real FactoryPool (run() stepped one interval at a time under a virtual   *)
(* clock) against Factory.tla.  Trace = {n, fdem, init:[child..], events:[..]} with      *)
(*  {e:"Adjust", cs:[{st,s,u,a,d}..], spawned, foreign} observed after one cycle          *)
(*  {e:"WriteDemand", v} {e:"ChildSet", i, attr, v} {e:"SelfDisable", i} {e:"Collect", i} *)
(*  {e:"Read", supply, demand, u, a}                                                      *)
EXTENDS Factory, Json, IOUtils, TLCExt

Traces == JsonDeserialize(IOEnv.TRACE_FILE)
NT == Len(Traces)
VARIABLES tid, l, nc
tvars == <<vars, tid, l, nc>>
Tr == Traces[tid]
Ev == Tr.events[l]

TraceInit == /\ tid \in 1..NT /\ l = 1 /\ nc = FALSE /\ InitWith(Traces[tid].init)
Step == l <= Len(Tr.events) /\ l' = l + 1 /\ UNCHANGED tid

TAdjust ==
    /\ Ev.e = "Adjust"
    /\ cs' = [i \in Ids |-> Ev.cs[i]]
    /\ spawned' = Ev.spawned
    /\ foreign' = Ev.foreign
    /\ LET branch == IF TotalSupply > demand THEN "shrink" ELSE "grow" IN
       last' = [branch |-> branch, target |-> demand,
                nspawn |-> Ev.spawned - spawned,
                lastd |-> IF Ev.spawned > spawned THEN FD(Ev.spawned) ELSE 0,
                relpos |-> {i \in Hatch : cs[i].d > 0 /\ Ev.cs[i].st # "hatch"}]
    /\ ever' = ever \cup {i \in Ids : Ev.cs[i].st = "mort"}
    /\ act' = [name |-> "Adjust", i |-> 0, attr |-> "", v |-> 0]
    /\ UNCHANGED <<demand, obs, n0>>
    /\ nc' = (nc \/ ~Adjust)

TRead == /\ Ev.e = "Read"
         /\ obs' = [supply |-> Ev.supply, demand |-> Ev.demand, u |-> Ev.u, a |-> Ev.a]
         /\ act' = [name |-> "Read", i |-> 0, attr |-> "", v |-> 0]
         /\ UNCHANGED <<cs, demand, spawned, last, ever, n0, foreign>>
         /\ nc' = (nc \/ ~Read)

\* environment actions the driver performed on the real objects.  The driver only performs
\* them where the REAL state allows it; if the observed table (which the formulas are judged
\* on) disagrees - the code has put a child somewhere the specification does not know - the
\* event is still consumed: the trace is no behaviour from here on, the formulas go on
EnvGuard == CASE Ev.e = "ChildSet" -> Ev.i \in Alive
              [] Ev.e = "SelfDisable" -> Ev.i \in Hatch
              [] Ev.e = "Collect" -> Ev.i \in Mort
              [] OTHER -> TRUE
TEnv == /\ Ev.e \in {"WriteDemand", "ChildSet", "SelfDisable", "Collect"}
        /\ IF EnvGuard
           THEN /\ \/ Ev.e = "WriteDemand" /\ WriteDemand(Ev.v)
                   \/ Ev.e = "ChildSet" /\ ChildSet(Ev.i, Ev.attr, Ev.v)
                   \/ Ev.e = "SelfDisable" /\ SelfDisable(Ev.i)
                   \/ Ev.e = "Collect" /\ Collect(Ev.i)
                /\ UNCHANGED nc
           ELSE /\ nc' = TRUE
                /\ act' = [name |-> Ev.e, i |-> 0, attr |-> "", v |-> 0]
                /\ UNCHANGED <<cs, demand, spawned, last, ever, obs, n0, foreign>>

TraceNext == Step /\ (TAdjust \/ TRead \/ TEnv)
TraceSpec == TraceInit /\ [][TraceNext]_tvars

Mon(name, ok) == ok \/ PrintT(<<"PV", tid, l - 1, name>>)
Monitor ==
    /\ Mon("HatchMortDisjoint", HatchMortDisjoint)
    /\ (HatchMortDisjoint =>
        /\ Mon("GrowCovers", GrowCovers)
        /\ Mon("GrowMinimal", GrowMinimal)
        /\ Mon("ShrinkKeepsCover", ShrinkKeepsCover)
        /\ Mon("ShrinkMaximal", ShrinkMaximal)
        /\ Mon("ReleasedZeroForever", ReleasedZeroForever)
        /\ Mon("NoDemandNoHatch", NoDemandNoHatch)
        /\ Mon("OnlyFactoryCreates", OnlyFactoryCreates)
        /\ Mon("Aggregates", Aggregates))
    /\ (l <= Len(Tr.events) \/ PrintT(<<"END", tid, l - 1, nc>>))
NCMonitor == (nc' /\ ~nc) => PrintT(<<"NC", tid, l, Ev.e>>)
=============================================================================
