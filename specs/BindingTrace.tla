------------------------------ MODULE BindingTrace ------------------------------
(* Traces: {sig:{pos,varargs,kwonly,varkw,leaf}, variant, calls:[{npos,kws,pool}..],      *)
(*          outcomes:["template"|"rejected"|"other", ..]} one outcome per call made        *)
EXTENDS Binding, SequencesExt, Json, IOUtils, TLCExt
Traces == JsonDeserialize(IOEnv.TRACE_FILE)
NT == Len(Traces)
VARIABLES tid, l, nc, bad
tvars == <<vars, tid, l, nc, bad>>
Tr == Traces[tid]
SigOf(s) == [pos |-> s.pos, varargs |-> s.varargs, kwonly |-> ToSet(s.kwonly), varkw |-> s.varkw, leaf |-> s.leaf]
CallsOf(cs) == [j \in 1..Len(cs) |-> [npos |-> cs[j].npos, kws |-> ToSet(cs[j].kws), pool |-> cs[j].pool]]
TraceInit == /\ tid \in 1..NT /\ l = 1 /\ nc = FALSE /\ bad = "none"
             /\ InitWith(SigOf(Traces[tid].sig), Traces[tid].variant, CallsOf(Traces[tid].calls))
TSupply == /\ l <= Len(Tr.outcomes) /\ l' = l + 1 /\ UNCHANGED <<tid, sig, variant, calls>>
           /\ LET o == Tr.outcomes[l]
                  c == calls[l]
                  should == ShouldReject(sig, acc, c) IN
              /\ outcome' = o
              /\ k' = k + 1
              /\ acc' = IF o = "template" THEN [npos |-> acc.npos + c.npos, kws |-> acc.kws \cup c.kws] ELSE acc
              /\ bad' = IF o = "other" THEN "RejectionIsTypeError"
                        ELSE IF should /\ o # "rejected" THEN "EagerReject"
                        ELSE IF ~should /\ o # "template" THEN "NoFalseReject" ELSE "none"
              /\ nc' = (nc \/ ~Supply)
TraceNext == TSupply
TraceSpec == TraceInit /\ [][TraceNext]_tvars
Mon(name, ok) == ok \/ PrintT(<<"PV", tid, l - 1, name>>)
Monitor == /\ Mon("EagerReject", bad # "EagerReject")
           /\ Mon("NoFalseReject", bad # "NoFalseReject")
           /\ Mon("RejectionIsTypeError", bad # "RejectionIsTypeError")
           /\ (l <= Len(Tr.outcomes) \/ PrintT(<<"END", tid, l - 1, nc>>))
NCMonitor == (nc' /\ ~nc) => PrintT(<<"NC", tid, l, "Supply">>)
=============================================================================
