--------------------------- MODULE ControllersTrace ---------------------------
(* Traces of real controllers against Controllers.tla.                              *)
(* Trace = {scn, pool, events:[{e:"Step", iv, p:{supply,demand,util,alloc},          *)
(*                              called:[ids], argsok} | {e:"Set", attr, v}]}         *)
EXTENDS Controllers, Json, IOUtils, TLCExt

Traces == JsonDeserialize(IOEnv.TRACE_FILE)
NT == Len(Traces)

VARIABLES tid, l, nc, argsok
tvars == <<vars, tid, l, nc, argsok>>
Tr == Traces[tid]
Ev == Tr.events[l]

\* JSON arrays of pairs -> sequences of <<threshold, id>>; id maps arrive as records
ScnOf(s) == s

TraceInit == /\ tid \in 1..NT /\ l = 1 /\ nc = FALSE /\ argsok = TRUE
             /\ InitWith(ScnOf(Traces[tid].scn), Traces[tid].pool)
Step_ == l <= Len(Tr.events) /\ l' = l + 1 /\ UNCHANGED tid

TStep == /\ Ev.e = "Step"
         /\ pool' = Ev.p
         /\ prev' = pool
         /\ called' = Ev.called
         /\ act' = [name |-> "Step", iv |-> Ev.iv, attr |-> "", v |-> 0]
         /\ argsok' = Ev.argsok
         /\ UNCHANGED scn
         /\ nc' = (nc \/ ~Step(Ev.iv))

TSet == /\ Ev.e = "Set"
        /\ Set(Ev.attr, Ev.v)
        /\ UNCHANGED <<nc, argsok>>

TraceNext == Step_ /\ (TStep \/ TSet)
TraceSpec == TraceInit /\ [][TraceNext]_tvars

Mon(name, ok) == ok \/ PrintT(<<"PV", tid, l - 1, name>>)
Monitor ==
    /\ Mon("OnlyDemandChanged", OnlyDemandChanged)
    /\ Mon("LinearBound", LinearBound)
    /\ Mon("LinearDirection", LinearDirection)
    /\ Mon("LinearExact", LinearExact)
    /\ Mon("RelativeExact", RelativeExact)
    /\ Mon("OneRuleOnce", OneRuleOnce)
    /\ Mon("RuleIsGreatestThresholdNotAbove", RuleIsGreatestThresholdNotAbove)
    /\ Mon("RuleResultApplied", RuleResultApplied)
    /\ Mon("OneSlaveOnce", OneSlaveOnce)
    /\ Mon("SlaveIsGreatestThresholdNotAbove", SlaveIsGreatestThresholdNotAbove)
    /\ Mon("SlavesActOnSwitchTarget", SlavesActOnSwitchTarget)
    /\ Mon("CalledWithTargetAndInterval", argsok)
    /\ (l <= Len(Tr.events) \/ PrintT(<<"END", tid, l - 1, nc>>))
NCMonitor == (nc' /\ ~nc) => PrintT(<<"NC", tid, l, Ev.e>>)
=============================================================================
