--------------------------- MODULE StandardiserIncr ---------------------------
(* The "n increments of 1 = one increment of n" clause of C06, kept apart from        *)
(* Standardiser.tla because it needs a RECURSIVE operator, which the proof system      *)
(* (specs/proofs/StandardiserProofs.tla extends Standardiser) does not read.           *)
EXTENDS Standardiser

\* "so n increments of 1 have the same effect as one increment of n": a pure
\* re-computation of `std.demand += k` from the current state, n times 1 versus once n.
ReadVal(t, s) == IF Abs(s - t) >= par.g THEN t ELSE s
WriteRes(v) == [s |-> Clamp(par, supply, v),
                t |-> IF par.g # ONE THEN Clamp(par, supply, Floor(v, par.g)) ELSE Clamp(par, supply, v)]
Incr(st, n) == WriteRes(ReadVal(st.t, st.s) + n * ONE)
RECURSIVE IncrTimes(_, _)
IncrTimes(st, n) == IF n = 0 THEN st ELSE IncrTimes(Incr(st, 1), n - 1)
IncrementsCompose ==
    fresh => \A n \in 1..3 : IncrTimes([t |-> tdemand, s |-> sdemand], n).s
                             = Incr([t |-> tdemand, s |-> sdemand], n).s
\* the forwarded value may differ only by what the limits cut off; where nothing
\* interferes it is the floor of the same unrounded value in both cases
IncrementsComposeTarget ==
    fresh => \A n \in 1..3 :
        LET a == IncrTimes([t |-> tdemand, s |-> sdemand], n)
            b == Incr([t |-> tdemand, s |-> sdemand], n)
        IN a.t = b.t
=============================================================================
