------------------------------ MODULE Standardiser ------------------------------
(***************************************************************************)
(* cobald.decorator.standardiser.Standardiser over a pool (property C06).   *)
(*                                                                         *)
(* All quantities are integers in grid units (value v stands for v/par.one; *)
(* par.one = 2: HALF units, the default; par.one = 4: quarter units), so     *)
(* that fractional limits and fractional granularities exist while every    *)
(* value is exact both in TLC and as a Python float.  Infinite limits are   *)
(* the constants PosInf / NegInf, far outside the explored range, so plain  *)
(* integer comparison and addition behave like IEEE infinities do for the   *)
(* finite values that occur.                                                *)
(*                                                                         *)
(* One action per public operation of the decorator and of its environment: *)
(*   Write(v, ty)     std.demand = v     (standardiser.py:48-56)            *)
(*   Read             std.demand         (standardiser.py:42-46)            *)
(*   SupplyChange(s)  the pool's supply changes                             *)
(*   OutsideDemand(d) somebody else writes target.demand                    *)
(* The parameter record par is chosen in Init and never changes; it is a    *)
(* variable (not a CONSTANT) so that one TLC run sweeps a whole family of   *)
(* parameter combinations and so that the trace specification can take it   *)
(* from each recorded trace.                                                *)
(***************************************************************************)
EXTENDS Integers, TLC

CONSTANTS ParamSet,     \* set of records [min, max, g, surplus, backlog, one]
          Values,       \* demands written / set from outside (half units)
          Supplies,     \* supplies of the pool (half units)
          InitDemands   \* demand of the pool when the decorator is constructed

PosInf == 1000000
NegInf == 0 - 1000000

VARIABLES par, supply, tdemand, sdemand, fresh, lastw, act, ret

vars == <<par, supply, tdemand, sdemand, fresh, lastw, act, ret>>

\* the number 1 in grid units: 2 on the half-unit grid; a parameter record may choose a finer
\* grid (one = 4: quarter units) so that values BETWEEN the multiples of a granularity below 1
\* exist
ONE == par.one

Abs(x) == IF x < 0 THEN 0 - x ELSE x

\* _floor(n, base) = n // base * base   (Python floor division; \div floors too)
Floor(n, base) == (n \div base) * base

\* _clamp(low, value, high)
ClampTo(low, v, high) == IF v < low THEN low ELSE IF v > high THEN high ELSE v

\* (extended arithmetic: an infinite supply with an infinite allowance is "inf - inf", which
\*  Python makes a NaN that compares false with everything - no bound at all)
Lo(p, s) == IF p.backlog >= PosInf THEN NegInf ELSE IF s >= PosInf THEN PosInf ELSE s - p.backlog
Hi(p, s) == IF p.surplus >= PosInf \/ s >= PosInf THEN PosInf ELSE s + p.surplus

\* _clamp_demand(value) WITHOUT the type(value)(...) conversion: the documented
\* priority order - window first, minimum/maximum overrule it.
Clamp(p, s, v) == ClampTo(p.min, ClampTo(Lo(p, s), v, Hi(p, s)), p.max)

\* what the constructor accepts (standardiser.py:75-78)
Accepted(p) == /\ p.min <= p.max
               /\ p.surplus > 0
               /\ p.backlog > 0
               /\ p.g > 0

Init == /\ par \in {p \in ParamSet : Accepted(p)}
        /\ supply \in Supplies
        /\ tdemand \in InitDemands
        /\ sdemand = tdemand             \* self._demand = target.demand
        /\ fresh = FALSE
        /\ lastw = 0
        /\ act = [name |-> "Init", v |-> 0, ty |-> "float"]
        /\ ret = 0

\* ty is the Python type of the written number; only whole values can be ints
Write(v, ty) ==
    /\ sdemand' = Clamp(par, supply, v)
    /\ tdemand' = IF par.g # ONE THEN Clamp(par, supply, Floor(v, par.g)) ELSE sdemand'
    /\ fresh' = TRUE
    /\ lastw' = v
    /\ act' = [name |-> "Write", v |-> v, ty |-> ty]
    /\ UNCHANGED <<par, supply, ret>>

Read ==
    /\ sdemand' = IF Abs(sdemand - tdemand) >= par.g THEN tdemand ELSE sdemand
    /\ ret' = sdemand'
    /\ act' = [name |-> "Read", v |-> 0, ty |-> "float"]
    /\ UNCHANGED <<par, supply, tdemand, fresh, lastw>>

SupplyChange(s) ==
    /\ supply' = s
    /\ fresh' = FALSE
    /\ act' = [name |-> "SupplyChange", v |-> s, ty |-> "float"]
    /\ UNCHANGED <<par, tdemand, sdemand, lastw, ret>>

OutsideDemand(d) ==
    /\ tdemand' = d
    /\ fresh' = FALSE
    /\ act' = [name |-> "OutsideDemand", v |-> d, ty |-> "float"]
    /\ UNCHANGED <<par, supply, sdemand, lastw, ret>>

Tys(v) == IF v % ONE = 0 THEN {"int", "float"} ELSE {"float"}

Next == \/ \E v \in Values : \E ty \in Tys(v) : Write(v, ty)
        \/ Read
        \/ \E s \in Supplies : s # supply /\ SupplyChange(s)
        \/ \E d \in Values : d # tdemand /\ OutsideDemand(d)

Spec == Init /\ [][Next]_vars

-----------------------------------------------------------------------------
(* Properties.  Each sentence of C06 is one named formula.  They talk about  *)
(* the state right after an operation, identified by act.name.               *)

InWindow(t) == Lo(par, supply) <= t /\ t <= Hi(par, supply)

\* "the demand that reaches the target lies within [minimum, maximum]"
WithinMinMax == act.name = "Write" => par.min <= tdemand /\ tdemand <= par.max

\* "and, unless minimum/maximum force otherwise, within [supply-backlog, supply+surplus]"
WithinWindowUnlessForced ==
    act.name = "Write" =>
        \/ InWindow(tdemand)
        \/ tdemand = par.min /\ par.min > Hi(par, supply)
        \/ tdemand = par.max /\ par.max < Lo(par, supply)

\* "when no limit interferes it is the written value rounded down to a multiple of
\* the granularity".  The default granularity 1 is documented as "no limit": a float
\* written through it is forwarded unrounded (DESIGN 7.9), so it is exempt.
FloorApplies == par.g # ONE \/ act.ty = "int"
FloorWhenFree ==
    act.name = "Write" /\ FloorApplies =>
        LET f == Floor(lastw, par.g) IN
        (InWindow(f) /\ par.min <= f /\ f <= par.max) => tdemand = f

\* "The demand read back is the limited but unrounded value: it obeys the same limits"
ReadbackLimited ==
    act.name = "Read" /\ fresh =>
        /\ par.min <= ret /\ ret <= par.max
        /\ \/ InWindow(ret)
           \/ ret = par.min /\ par.min > Hi(par, supply)
           \/ ret = par.max /\ par.max < Lo(par, supply)
ReadbackUnrounded ==
    act.name = "Read" /\ fresh => ret = Clamp(par, supply, lastw)

\* "and is less than one granule away from the target's demand"
ReadbackWithinGranule == act.name = "Read" => Abs(ret - tdemand) < par.g

TypeOK == /\ par \in ParamSet
          /\ fresh \in BOOLEAN
=============================================================================
