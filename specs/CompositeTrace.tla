---------------------------- MODULE CompositeTrace ----------------------------
(* Traces of real Uniform/WeightedComposite objects against Composite.tla.             *)
(* Trace = {kind, events:[{e:"Write", D, cd:[scaled child demands]} |                   *)
(*   {e:"Read", demand, supply, u, a} | {e:"SetChild", i, attr, v} |                    *)
(*   {e:"AddChild", c:{s,u,a,d}} | {e:"Remove", i}]}                                    *)
EXTENDS Composite, Json, IOUtils, TLCExt

Traces == JsonDeserialize(IOEnv.TRACE_FILE)
NT == Len(Traces)
VARIABLES tid, l, nc, strays
tvars == <<vars, tid, l, nc, strays>>
Tr == Traces[tid]
Ev == Tr.events[l]

TraceInit == /\ tid \in 1..NT /\ l = 1 /\ nc = FALSE /\ strays = FALSE /\ InitWith(Traces[tid].kind, <<>>)
Step == l <= Len(Tr.events) /\ l' = l + 1 /\ UNCHANGED tid

\* (the write must reach exactly the composite's own children: a different number of demands
\*  observed is recorded in `strays` and reported by WritesReachOwnChildren)
TWrite == /\ Ev.e = "Write"
          /\ strays' = (strays \/ Len(Ev.cd) # K \/ Ev.nchildren # K)
          /\ ch' = IF Len(Ev.cd) = K THEN [i \in 1..K |-> [ch[i] EXCEPT !.d = Ev.cd[i]]] ELSE ch
          /\ cdemand' = Ev.D
          /\ act' = [name |-> "Write", D |-> Ev.D, i |-> 0, attr |-> "", v |-> 0, c |-> NoChild]
          /\ UNCHANGED <<kind, obs>>
          /\ nc' = (nc \/ Len(Ev.cd) # K \/ ~Write(Ev.D))
TRead == /\ Ev.e = "Read"
         /\ obs' = [demand |-> Ev.demand, supply |-> Ev.supply, u |-> Ev.u, a |-> Ev.a]
         /\ act' = [name |-> "Read", D |-> 0, i |-> 0, attr |-> "", v |-> 0, c |-> NoChild]
         /\ UNCHANGED <<kind, ch, cdemand>>
         /\ strays' = (strays \/ Ev.nchildren # K)
         /\ nc' = (nc \/ ~Read)
TSet == Ev.e = "SetChild" /\ SetChild(Ev.i, Ev.attr, Ev.v) /\ UNCHANGED <<nc, strays>>
TAdd == Ev.e = "AddChild" /\ AddChild(Ev.c) /\ UNCHANGED <<nc, strays>>
TRemove == Ev.e = "Remove" /\ Remove(Ev.i) /\ UNCHANGED <<nc, strays>>

TraceNext == Step /\ (TWrite \/ TRead \/ TSet \/ TAdd \/ TRemove)
TraceSpec == TraceInit /\ [][TraceNext]_tvars

Mon(name, ok) == ok \/ PrintT(<<"PV", tid, l - 1, name>>)
Monitor ==
    /\ Mon("WritesReachOwnChildren", ~strays)
    /\ Mon("Conservation", Conservation)
    /\ Mon("Proportional", Proportional)
    /\ Mon("ShareBounds", ShareBounds)
    /\ Mon("ReadsBackD", ReadsBackD)
    /\ Mon("SupplyIsSum", SupplyIsSum)
    /\ Mon("FitnessConvex", FitnessConvex)
    /\ Mon("Fallbacks", Fallbacks)
    /\ (l <= Len(Tr.events) \/ PrintT(<<"END", tid, l - 1, nc>>))
NCMonitor == (nc' /\ ~nc) => PrintT(<<"NC", tid, l, Ev.e>>)
=============================================================================
