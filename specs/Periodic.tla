------------------------------- MODULE Periodic -------------------------------
(***************************************************************************)
(* The shipped periodic services run under a (virtual) clock: property C09. *)
(*   LinearController.run, RelativeSupplyController.run, Stepwise.run,      *)
(*   DemandSwitch.run   : step immediately, then once per interval          *)
(*   Buffer.run         : flush immediately, then once per window           *)
(*   FactoryPool.run    : sleep one interval, then adjust, ...              *)
(*                                                                         *)
(* Time is in EIGHTHS of a second.  now advances by Tick; the service wakes *)
(* when now = nextw; environment actions (pool changes, writes through the  *)
(* Buffer, demand writes to the FactoryPool) may happen at any instant,     *)
(* before or after a wake-up at the same instant.                           *)
(* The regulation step itself is Controllers!StepDemand (C08's module);     *)
(* its interval argument is the service's interval in quarters (I \div 2).  *)
(*                                                                         *)
(* kind "buffer":  pool.demand is the TARGET's demand, pending the value    *)
(*                 held by the Buffer                                       *)
(* kind "factory": children all have demand 1 and no supply (so the pool    *)
(*                 only grows); fcount = number of children, pending = the  *)
(*                 demand written to the pool.  C15 covers the semantics;   *)
(*                 here only WHEN adjustments happen matters.               *)
(***************************************************************************)
EXTENDS Controllers

CONSTANTS Horizon, MaxEnv

VARIABLES now, nextw, I, steps, dh, raised, pending, fcount, nenv

pvars == <<vars, now, nextw, I, steps, dh, raised, pending, fcount, nenv>>

IsCtl == scn.kind \in {"linear", "relative", "stepwise", "switch"}
Offset == IF scn.kind = "factory" THEN I ELSE 0

PInitWith(s, p, iv, pend, fc) ==
    /\ InitWith(s, p)
    /\ now = 0 /\ I = iv /\ nextw = (IF s.kind = "factory" THEN iv ELSE 0)
    /\ steps = <<>> /\ dh = <<<<0, p.demand>>>> /\ raised = FALSE
    /\ pending = pend /\ fcount = fc /\ nenv = 0

Tick == /\ now < Horizon /\ nextw > now          \* a due wake-up happens before time moves on
        /\ now' = now + 1
        /\ UNCHANGED <<vars, nextw, I, steps, dh, raised, pending, fcount, nenv>>

\* the service's wake-up: one regulation step / flush / adjustment
WakeDemand ==
    IF IsCtl THEN StepDemand(pool, I \div 2)
    ELSE IF scn.kind = "buffer" THEN pending
    ELSE pool.demand
\* FactoryPool with children of demand 1: the supply (all of it in the first child, s0
\* = pool.supply \div 16 units) decides between shrinking and growing (factory.py:93-97)
FactoryTarget ==
    IF scn.kind # "factory" THEN fcount
    ELSE IF pool.supply \div 16 > pending
         THEN (IF fcount > pending THEN pending ELSE fcount)
         ELSE (IF fcount < pending THEN pending ELSE fcount)
\* a wake-up that has nothing to do may go unobserved (Buffer, FactoryPool)
SilentOK == \/ scn.kind = "buffer" /\ pending = pool.demand
            \/ scn.kind = "factory" /\ FactoryTarget = fcount
\* everything a wake-up at instant t does, except for the clock itself
WakeAt(t) ==
    /\ pool' = [pool EXCEPT !.demand = WakeDemand]
    /\ prev' = pool
    /\ called' = (IF IsCtl THEN StepCalled(pool) ELSE <<>>)
    /\ fcount' = FactoryTarget
    /\ act' = [name |-> "Step", iv |-> I \div 2, attr |-> "", v |-> 0]
    /\ steps' = Append(steps, t)
    /\ dh' = Append(dh, <<t, pool'.demand>>)
    /\ nextw' = t + I
    /\ UNCHANGED <<scn, I, raised, pending, nenv>>
Wake == now = nextw /\ ~raised /\ WakeAt(now) /\ UNCHANGED now

\* environment
EnvSet(attr, v) ==
    /\ nenv < MaxEnv
    /\ Set(attr, v)
    /\ dh' = (IF attr = "demand" THEN <<<<now, v>>>> ELSE dh)   \* drift is about the controller's own changes
    /\ nenv' = nenv + 1
    /\ UNCHANGED <<now, nextw, I, steps, raised, pending, fcount>>
\* the FactoryPool's demand counts children (demand 1 each): v sixteenths = v \div 16 children
Written(v) == IF scn.kind = "factory" THEN v \div 16 ELSE v
EnvWrite(v) ==      \* a demand write through the Buffer / to the FactoryPool
    /\ nenv < MaxEnv /\ scn.kind \in {"buffer", "factory"}
    /\ pending' = Written(v)
    /\ act' = [name |-> "Write", iv |-> 0, attr |-> "", v |-> v]
    /\ nenv' = nenv + 1
    /\ UNCHANGED <<scn, pool, prev, called, now, nextw, I, steps, dh, raised, fcount>>

\* one of the children a FactoryPool has spawned gives up on its own (its demand drops to 0
\* while nothing the FactoryPool itself reads - its supply, its demand - changes): the next
\* adjustment replaces it
EnvQuit ==
    /\ nenv < MaxEnv /\ scn.kind = "factory" /\ fcount >= 2
    /\ fcount' = fcount - 1
    /\ act' = [name |-> "Quit", iv |-> 0, attr |-> "", v |-> 0]
    /\ nenv' = nenv + 1
    /\ UNCHANGED <<scn, pool, prev, called, now, nextw, I, steps, dh, raised, pending>>

PNext == \/ Tick \/ Wake \/ EnvQuit
         \/ \E v \in Supplies : IsCtl /\ EnvSet("supply", v)
         \/ \E v \in Demands : scn.kind # "factory" /\ EnvSet("demand", v)
         \/ \E v \in Fits : IsCtl /\ (EnvSet("util", v) \/ EnvSet("alloc", v))
         \/ \E v \in Demands : EnvWrite(v)

-----------------------------------------------------------------------------
(* Properties *)
\* "performs one regulation step immediately and then exactly one per interval"
\* (FactoryPool: one adjustment per interval, the first after one interval)
OncePerInterval ==
    /\ \A k \in 1..Len(steps) : steps[k] = Offset + (k - 1) * I
    /\ now <= Offset + Len(steps) * I          \* no wake-up is overdue
\* "indefinitely and without raising on a well-behaved pool"
NeverRaises == ~raised

\* "under a LinearController demand changes by at most rate x (span + interval) over any
\*  time span" - between any two recorded instants, unless the environment wrote the demand
LinearDrift == scn.kind = "linear" =>
    \A a, b \in 1..Len(dh) : a < b =>
        LET d == dh[b][2] - dh[a][2]  span == dh[b][1] - dh[a][1] IN
        2 * (IF d < 0 THEN 0 - d ELSE d) <= scn.rate * (span + I)

\* "A Buffer forwards nothing to its target between window boundaries"
BufferSilentBetweenBoundaries ==
    (scn.kind = "buffer" /\ act.name = "Step" /\ pool.demand # prev.demand) => (steps[Len(steps)] % I = 0)
\* "and at every boundary makes the target's demand equal to the value most recently
\*  written to it"
BufferAppliesLatest == (scn.kind = "buffer" /\ act.name = "Step") => pool.demand = pending

\* "A FactoryPool adjusts its children once per interval": after the adjustment at a
\* boundary the children cover what was requested before it
FactoryAdjusts == (scn.kind = "factory" /\ act.name = "Step") =>
    /\ pool.supply \div 16 <= pending => fcount >= pending        \* grown to cover the demand
    /\ pool.supply \div 16 > pending => fcount <= pending \/ fcount <= 1   \* shrunk (or nothing to release)
=============================================================================
