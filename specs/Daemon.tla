-------------------------------- MODULE Daemon --------------------------------
(***************************************************************************)
(* python -m cobald.daemon <config>  at process level (property C13):       *)
(*   daemon/core/main.py run / _load_services, core/config.py load,         *)
(*   config/python.py, config/yaml.py, runners/service.py                   *)
(*                                                                         *)
(* A case cfg = [kind : "yaml" | "python" | "badext",                       *)
(*               err  : "none" | "syntax" | "dangling" | "nopipeline" | "multidoc" | *)
(*                      "ctor" | "unknowntag" | "pyraises",                 *)
(*               svcs : the set of element names that are services,         *)
(*               elems: all element names (constructed last to first),      *)
(*               fails: a service that raises after some beats, or "-",     *)
(*               sigint: whether SIGINT is sent once everything runs]       *)
(* Actions: Boot, LoadBegin, Construct(e), LoadFail, Loaded, SvcStart(s),   *)
(* Beat(s), ServiceFails, Sigint, SvcCancelled(s), Exit(code).              *)
(***************************************************************************)
EXTENDS Naturals, Sequences, FiniteSets, TLC

VARIABLES cfg, phase, constructed, inloop, started, beats, cancelled, errlogged, sigsent, exit
vars == <<cfg, phase, constructed, inloop, started, beats, cancelled, errlogged, sigsent, exit>>

Running == 1000     \* exit code of a process that has not exited
InitWith(c) ==
    /\ cfg = c /\ phase = "boot"
    /\ constructed = <<>> /\ inloop = TRUE
    /\ started = [s \in c.svcs |-> 0] /\ beats = [s \in c.svcs |-> 0]
    /\ cancelled = {} /\ errlogged = FALSE /\ sigsent = FALSE /\ exit = Running

Boot == /\ phase = "boot" /\ phase' = "loading"
        /\ UNCHANGED <<cfg, constructed, inloop, started, beats, cancelled, errlogged, sigsent, exit>>

\* the configuration is loaded inside the running event loop (main.py:37-43)
Loadable == cfg.kind # "badext" /\ cfg.err \in {"none", "ctor"}
Construct(e) ==
    /\ phase = "loading" /\ Loadable
    /\ Len(constructed) < Len(cfg.elems)
    /\ e = cfg.elems[Len(cfg.elems) - Len(constructed)]        \* last to first
    /\ constructed' = Append(constructed, e)
    /\ UNCHANGED <<cfg, phase, inloop, started, beats, cancelled, errlogged, sigsent, exit>>

\* an invalid configuration, an unknown extension or a constructor error is fatal
LoadFail ==
    /\ phase = "loading"
    /\ \/ ~Loadable
       \/ cfg.err = "ctor" /\ constructed # <<>> /\ constructed[Len(constructed)] = cfg.badelem
    /\ phase' = "failing" /\ errlogged' = TRUE
    /\ UNCHANGED <<cfg, constructed, inloop, started, beats, cancelled, sigsent, exit>>

Loaded == /\ phase = "loading" /\ cfg.err = "none" /\ cfg.kind # "badext"
          /\ Len(constructed) = Len(cfg.elems)
          /\ phase' = "running"
          /\ UNCHANGED <<cfg, constructed, inloop, started, beats, cancelled, errlogged, sigsent, exit>>

\* the service loop adopts every live service exactly once
SvcStart(s) == /\ phase = "running" /\ started[s] = 0
               /\ started' = [started EXCEPT ![s] = 1]
               /\ UNCHANGED <<cfg, phase, constructed, inloop, beats, cancelled, errlogged, sigsent, exit>>
Beat(s) == /\ phase = "running" /\ started[s] = 1 /\ s \notin cancelled /\ beats[s] < 3
           /\ beats' = [beats EXCEPT ![s] = @ + 1]
           /\ UNCHANGED <<cfg, phase, constructed, inloop, started, cancelled, errlogged, sigsent, exit>>
ServiceFails == /\ phase = "running" /\ cfg.fails \in cfg.svcs /\ started[cfg.fails] = 1 /\ beats[cfg.fails] >= 1
                /\ phase' = "failing" /\ errlogged' = TRUE
                /\ UNCHANGED <<cfg, constructed, inloop, started, beats, cancelled, sigsent, exit>>
Sigint == /\ phase = "running" /\ cfg.sigint /\ ~sigsent
          /\ \A s \in cfg.svcs : started[s] = 1 /\ beats[s] >= 1
          /\ sigsent' = TRUE /\ phase' = "stopping"
          /\ UNCHANGED <<cfg, constructed, inloop, started, beats, cancelled, errlogged, exit>>
\* coroutine services see their cancellation before the process exits
SvcCancelled(s) == /\ phase \in {"stopping", "failing"} /\ started[s] = 1 /\ s \notin cancelled /\ s \in cfg.cancellable
                   /\ cancelled' = cancelled \cup {s}
                   /\ UNCHANGED <<cfg, phase, constructed, inloop, started, beats, errlogged, sigsent, exit>>
Exit(code) ==
    /\ exit = Running
    /\ \/ phase = "stopping" /\ code = 0 /\ \A s \in cfg.cancellable : started[s] = 1 => s \in cancelled
       \/ phase = "failing" /\ code = 1
    /\ exit' = code /\ phase' = "exited"
    /\ UNCHANGED <<cfg, constructed, inloop, started, beats, cancelled, errlogged, sigsent>>

Next == \/ Boot \/ LoadFail \/ Loaded \/ ServiceFails \/ Sigint \/ Exit(0) \/ Exit(1)
        \/ \E e \in {cfg.elems[i] : i \in 1..Len(cfg.elems)} : Construct(e)
        \/ \E s \in cfg.svcs : SvcStart(s) \/ Beat(s) \/ SvcCancelled(s)

-----------------------------------------------------------------------------
Exited == exit # Running
\* "constructs the configured objects inside the running asyncio event loop"
ConstructedInRunningLoop == inloop
\* "starts every service among them exactly once"
ExactlyOnce == \A s \in cfg.svcs : started[s] <= 1
AllStartedBeforeStop == sigsent => \A s \in cfg.svcs : started[s] = 1
\* "SIGINT stops it gracefully: services are cancelled and the exit status is 0"
SigintGraceful == (Exited /\ sigsent /\ ~errlogged) => (exit = 0 /\ \A s \in cfg.cancellable : started[s] = 1 => s \in cancelled)
\* "An invalid configuration, an unknown file extension or a failing service makes it exit
\*  with non-zero status and an error on the runtime log"
ShouldFail == cfg.kind = "badext" \/ cfg.err # "none" \/ cfg.fails \in cfg.svcs
ErrorsExitNonZero == Exited => ((ShouldFail /\ ~sigsent) => (exit # 0 /\ errlogged))
\* "keeps all of them alive and running until it is stopped": a valid configuration never
\* makes the daemon exit by itself
RunsUntilStopped == Exited => (sigsent \/ ShouldFail)
ExitZeroOnlyAfterSigint == (Exited /\ exit = 0) => sigsent
=============================================================================
