------------------------------ MODULE Registration ------------------------------
(***************************************************************************)
(* The registration / start-up kernel of MetaRunner (meta_runner.py         *)
(* register_payload, _launch_runners, _manage_runners, _unqueue_payloads;    *)
(* trio_runner.py register_payload) at the granularity of the verification   *)
(* hooks: every action below is exactly the code a thread executes between   *)
(* two consecutive hook points, so a behaviour of this module is a schedule  *)
(* that the gate scheduler (vp/rt/regsched.py) can force on the real code.   *)
(* It is the fine-grained companion of Runtime.tla: it shows WHY callers     *)
(* have to wait for `running` (DESIGN 7.4) - with WaitForRunning = FALSE TLC *)
(* finds the three start-up window defects F8a-c - and that under the        *)
(* documented protocol nothing is lost and adopt never raises.               *)
(*                                                                         *)
(* Threads: main (accept(): launch the runners one by one, wait until the    *)
(* trio runner is ready, set running, flush the queues) and one submitter    *)
(* per payload calling register_payload(payload, flavour) from its own       *)
(* thread.  A registration is up to three separately schedulable steps:      *)
(*    Lookup    runner = self._runners[flavour]          hit / KeyError      *)
(*    Check     if self.running.is_set(): raise RuntimeError                 *)
(*    Queue     self._runner_queues.setdefault(flavour, []).extend(..)       *)
(* or, on a hit, Direct = runner.register_payload (trio asserts its token).  *)
(***************************************************************************)
EXTENDS Naturals, Sequences, FiniteSets, TLC

CONSTANTS Subs,           \* submitter threads = payload ids
          FlavOf,         \* [Subs -> {"trio", "asyncio", "threading"}]
          WaitForRunning  \* TRUE: the documented protocol - a registration is either complete
                          \* before accept() is called or begins after `running` is set

Flavours == <<"trio", "asyncio", "threading">>      \* MetaRunner.runner_types order
Svc == 0                                            \* the service loop payload of accept() itself
ASSUME Svc \notin Subs
FlavourSet == {"trio", "asyncio", "threading"}

VARIABLES mpc,        \* the hook main stands at: "idle" | "launch" (mr.launch.begin / .created) |
                      \* "ready" (all created) | "launched" | "runset" | "unqbegin" | "direct" |
                      \* "cleared" | "done" (mr.unq.end) | "crashed"
          created,    \* number of runners already in self._runners (0..3)
          token,      \* the trio runner has published its token / channel
          running,
          queue,      \* [flavour -> Seq(payload)]  self._runner_queues (absent key = <<>>)
          keys,       \* the keys of self._runner_queues in insertion order
          uq, ksize,  \* the dict iterator of the flush loop: position, dict size when created
          snap,       \* the list unpacked by register_payload(*queue, ..) and not yet registered
          spc, sres,  \* submitter: pc, and what adopt did: "-" | "ok" | "unknown_runner" | "assertion"
          started     \* payloads handed to a runner

vars == <<mpc, created, token, running, queue, keys, uq, ksize, snap, spc, sres, started>>

Present(f) == \E i \in 1..created : Flavours[i] = f
HasKey(f) == \E i \in 1..Len(keys) : keys[i] = f
SeqSet(q) == {q[i] : i \in 1..Len(q)}

Init == /\ mpc = "idle" /\ created = 0 /\ token = FALSE /\ running = FALSE
        /\ queue = [f \in FlavourSet |-> <<>>] /\ keys = <<>>
        /\ uq = 1 /\ ksize = 0 /\ snap = <<>>
        /\ spc = [s \in Subs |-> "start"] /\ sres = [s \in Subs |-> "-"]
        /\ started = {}

\* ------------------------------------------------------------------ main thread
\* ServiceRunner.accept(): self.adopt(self._accept_services, flavour=trio) - the service loop
\* (payload Svc) goes through the very same queue - .. self._runners = {}  -> mr.launch.begin
AcceptBegin == /\ mpc = "idle"
               /\ WaitForRunning => \A s \in Subs : spc[s] \in {"start", "done"}
               /\ mpc' = "launch"
               /\ queue' = [queue EXCEPT !["trio"] = Append(@, Svc)]
               /\ keys' = IF HasKey("trio") THEN keys ELSE Append(keys, "trio")
               /\ UNCHANGED <<created, token, running, uq, ksize, snap, spc, sres, started>>
\* self._runners[flavour] = runner_type(loop)   one key at a time       -> mr.launch.created
LaunchCreate == /\ mpc = "launch" /\ created < 3
                /\ created' = created + 1
                /\ mpc' = IF created = 2 THEN "ready" ELSE "launch"
                /\ UNCHANGED <<token, running, queue, keys, uq, ksize, snap, spc, sres, started>>
\* await runner.ready() for all: the runner tasks start, the trio thread publishes token and
\* channel                                                              -> mr.launched
Ready == /\ mpc = "ready" /\ token' = TRUE /\ mpc' = "launched"
         /\ UNCHANGED <<created, running, queue, keys, uq, ksize, snap, spc, sres, started>>
\* self.running.set()                                                   -> mr.running.set
SetRunning == /\ mpc = "launched" /\ running' = TRUE /\ mpc' = "runset"
              /\ UNCHANGED <<created, token, queue, keys, uq, ksize, snap, spc, sres, started>>
\* gather(..., self._unqueue_payloads()): the flush task starts         -> mr.unq.begin
UnqEnter == /\ mpc = "runset" /\ mpc' = "unqbegin"
            /\ UNCHANGED <<created, token, running, queue, keys, uq, ksize, snap, spc, sres, started>>

\* next(iterator) of `for flavour, queue in self._runner_queues.items()`: the iterator walks the
\* LIVE dict by position; "dictionary changed size during iteration" is checked before
\* exhaustion.  On exhaustion self._runner_queues.clear() follows      -> mr.unq.end;
\* otherwise register_payload(*queue, flavour=flavour) unpacks the list NOW, finds the runner
\*                                                                      -> mr.reg.direct (main)
Advance(pos, size) ==
    IF Len(keys) # size THEN mpc' = "crashed" /\ UNCHANGED <<queue, keys, snap>>
    ELSE IF pos > Len(keys) THEN /\ mpc' = "done" /\ keys' = <<>>
                                 /\ queue' = [f \in FlavourSet |-> <<>>] /\ UNCHANGED snap
    ELSE mpc' = "direct" /\ snap' = queue[keys[pos]] /\ UNCHANGED <<queue, keys>>
IterFirst == /\ mpc = "unqbegin" /\ uq' = 1 /\ ksize' = Len(keys)
             /\ Advance(1, Len(keys))
             /\ UNCHANGED <<created, token, running, spc, sres, started>>
\* runner.register_payload for each unpacked payload; queue.clear()     -> mr.unq.cleared
RegisterClear == /\ mpc = "direct"
                 /\ started' = started \cup SeqSet(snap)
                 /\ queue' = [queue EXCEPT ![keys[uq]] = <<>>]
                 /\ snap' = <<>> /\ mpc' = "cleared"
                 /\ UNCHANGED <<created, token, running, keys, uq, ksize, spc, sres>>
IterNext == /\ mpc = "cleared" /\ uq' = uq + 1
            /\ Advance(uq + 1, ksize)
            /\ UNCHANGED <<created, token, running, ksize, spc, sres, started>>

\* ------------------------------------------------------------------ submitters
\* (once main has crashed the schedule ends: what a registration meets in a runtime that is
\* tearing itself down is Runtime.tla's subject)
MayStart(s) == ~WaitForRunning \/ mpc = "idle" \/ running
\* runner = self._runners[flavour]                     -> mr.reg.direct | mr.reg.miss
Lookup(s) == /\ spc[s] = "start" /\ MayStart(s) /\ mpc # "crashed"
             /\ spc' = [spc EXCEPT ![s] = IF Present(FlavOf[s]) THEN "hit" ELSE "miss"]
             /\ UNCHANGED <<mpc, created, token, running, queue, keys, uq, ksize, snap, sres, started>>
\* if self.running.is_set(): raise RuntimeError         -> (raises) | mr.reg.queue
Check(s) == /\ spc[s] = "miss" /\ mpc # "crashed"
            /\ IF running THEN spc' = [spc EXCEPT ![s] = "done"] /\ sres' = [sres EXCEPT ![s] = "unknown_runner"]
               ELSE spc' = [spc EXCEPT ![s] = "toqueue"] /\ UNCHANGED sres
            /\ UNCHANGED <<mpc, created, token, running, queue, keys, uq, ksize, snap, started>>
\* self._runner_queues.setdefault(flavour, []).extend(payloads)         -> returns
Queue(s) == /\ spc[s] = "toqueue" /\ mpc # "crashed"
            /\ queue' = [queue EXCEPT ![FlavOf[s]] = Append(@, s)]
            /\ keys' = IF HasKey(FlavOf[s]) THEN keys ELSE Append(keys, FlavOf[s])
            /\ spc' = [spc EXCEPT ![s] = "done"] /\ sres' = [sres EXCEPT ![s] = "ok"]
            /\ UNCHANGED <<mpc, created, token, running, uq, ksize, snap, started>>
\* runner.register_payload(payload)   (trio: assert self._trio_token is not None)  -> returns
Direct(s) == /\ spc[s] = "hit" /\ mpc # "crashed"
             /\ IF FlavOf[s] = "trio" /\ ~token
                THEN sres' = [sres EXCEPT ![s] = "assertion"] /\ UNCHANGED started
                ELSE sres' = [sres EXCEPT ![s] = "ok"] /\ started' = started \cup {s}
             /\ spc' = [spc EXCEPT ![s] = "done"]
             /\ UNCHANGED <<mpc, created, token, running, queue, keys, uq, ksize, snap>>

MainNext == AcceptBegin \/ LaunchCreate \/ Ready \/ SetRunning \/ UnqEnter \/ IterFirst \/ RegisterClear \/ IterNext
SubNext(s) == Lookup(s) \/ Check(s) \/ Queue(s) \/ Direct(s)
Next == MainNext \/ \E s \in Subs : SubNext(s)
Spec == Init /\ [][Next]_vars /\ WF_vars(MainNext) /\ \A s \in Subs : WF_vars(SubNext(s))

-----------------------------------------------------------------------------
TypeOK == /\ mpc \in {"idle", "launch", "ready", "launched", "runset", "unqbegin", "direct", "cleared", "done", "crashed"}
          /\ created \in 0..3 /\ token \in BOOLEAN /\ running \in BOOLEAN
          /\ \A s \in Subs : spc[s] \in {"start", "hit", "miss", "toqueue", "done"}
          /\ started \subseteq Subs \cup {Svc}
AllDone == mpc = "done" /\ \A s \in Subs : spc[s] = "done"
\* adopt never raises
AdoptNeverRaises == \A s \in Subs : sres[s] \in {"-", "ok"}
\* nothing adopt accepted is lost: once everything has settled, it was handed to a runner
NoneLost == AllDone => Svc \in started /\ \A s \in Subs : sres[s] = "ok" => s \in started
\* a payload is handed over only because somebody adopted it
OnlyAdopted == \A s \in started \ {Svc} : sres[s] = "ok"
\* the main task is not broken by a concurrent registration
MainSurvives == mpc # "crashed"
\* everything settles
Settles == <>[](AllDone \/ mpc = "crashed")
=============================================================================
