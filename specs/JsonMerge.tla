------------------------------- MODULE JsonMerge -------------------------------
(***************************************************************************)
(* cobald.monitor.format_json.JsonFormatter (property C17, JSON half).      *)
(* A record is [defaults, addtime, data]: two sequences of <<key, token>>   *)
(* (later entries override earlier ones - they come from dicts, so keys are *)
(* unique within each) and whether a time stamp is configured.  The output  *)
(* is the set of <<key, token>> pairs of the decoded JSON object; TimeTok   *)
(* and MsgTok stand for the formatted time and the record's message.        *)
(***************************************************************************)
EXTENDS Integers, Sequences, FiniteSets, TLC
TimeTok == 100
MsgTok == 101
VARIABLES jrec, out, act
vars == <<jrec, out, act>>

KeysOf(items) == {items[i][1] : i \in 1..Len(items)}
Val(items, k) == items[CHOOSE i \in 1..Len(items) : items[i][1] = k][2]
\* "equal to the configured defaults, the time (unless disabled), the message and the
\*  record's data, later ones overriding earlier ones"
Merged(r) ==
    LET extra == (IF r.addtime THEN {"time"} ELSE {}) \cup {"message"}
        keys == KeysOf(r.defaults) \cup extra \cup KeysOf(r.data)
    IN {<<k, IF k \in KeysOf(r.data) THEN Val(r.data, k)
             ELSE IF k = "message" THEN MsgTok
             ELSE IF k = "time" /\ r.addtime THEN TimeTok
             ELSE Val(r.defaults, k)>> : k \in keys}
InitWith(r) == jrec = r /\ out = {} /\ act = "Init"
Emit == act = "Init" /\ out' = Merged(jrec) /\ act' = "Emit" /\ UNCHANGED jrec
Next == Emit
MergeOrder == act = "Emit" => out = Merged(jrec)
=============================================================================
