------------------------------ MODULE Decorators ------------------------------
(***************************************************************************)
(* Stacks of the shipped pool decorators over a pool (property C16):        *)
(*   interfaces/_proxy.py PoolDecorator ("plain"), decorator/logger.py,     *)
(*   decorator/standardiser.py (default parameters: "std"),                 *)
(*   decorator/buffer.py (not running: "buffer" only stores the demand).    *)
(* stack[1] is the outermost layer, stack[N] sits directly on the pool.     *)
(* Integer demands/supplies, fitness in quarters.                           *)
(*                                                                         *)
(* A demand write travels top-down; a Logger first reads its target (the    *)
(* layer below - which may have read side effects in a Standardiser), emits *)
(* one record, then forwards.  Fitness reads travel straight to the pool.   *)
(***************************************************************************)
EXTENDS Integers, Sequences, FiniteSets, TLC

CONSTANTS Values, Fits

VARIABLES stack, pool, lay, recs, nw, obs, tmpl, act
vars == <<stack, pool, lay, recs, nw, obs, tmpl, act>>

N == Len(stack)
Abs(x) == IF x < 0 THEN 0 - x ELSE x
NoLayer == [sd |-> 0, pend |-> 0]
KnownFields == {"value", "demand", "supply", "utilisation", "allocation", "consumption", "target"}

\* demand as read at layer i (i = N + 1 is the pool), with the Standardiser's resync
RECURSIVE ReadD(_, _)
ReadD(i, L) ==
    IF i > N THEN [v |-> pool.demand, L |-> L]
    ELSE IF stack[i] \in {"plain", "logger"} THEN ReadD(i + 1, L)
    ELSE IF stack[i] = "std"
         THEN LET r == ReadD(i + 1, L) IN
              IF Abs(r.L[i].sd - r.v) >= 1 THEN [v |-> r.v, L |-> [r.L EXCEPT ![i].sd = r.v]]
              ELSE [v |-> r.L[i].sd, L |-> r.L]
    ELSE [v |-> L[i].pend, L |-> L]      \* buffer

\* a write of v arriving at layer i; st = [L, pd, nw, recs]
RECURSIVE WriteD(_, _, _)
WriteD(i, v, st) ==
    IF i > N THEN [st EXCEPT !.pd = v, !.nw = st.nw + 1]
    ELSE IF stack[i] = "plain" THEN WriteD(i + 1, v, st)
    ELSE IF stack[i] = "logger"
         THEN LET r == ReadD(i + 1, st.L)
                  rec == [layer |-> i, value |-> v, d |-> r.v, s |-> pool.supply, u |-> pool.util, a |-> pool.alloc]
              IN WriteD(i + 1, v, [st EXCEPT !.L = r.L, !.recs = Append(st.recs, rec)])
    ELSE IF stack[i] = "std"
         THEN WriteD(i + 1, v, [st EXCEPT !.L[i].sd = v])
    ELSE [st EXCEPT !.L[i].pend = v]     \* buffer: stored, not forwarded

NoObs == [d |-> 0, s |-> 0, u |-> 0, a |-> 0]
NoAct == [name |-> "Init", v |-> 0, attr |-> ""]

InitWith(stk, p) ==
    /\ stack = stk /\ pool = p
    \* constructors: Standardiser._demand = target.demand, Buffer.demand = target.demand
    \* (built bottom-up, so each sees the layers below it)
    /\ lay = [i \in 1..Len(stk) |-> [sd |-> IF stk[i] = "std" THEN p.demand ELSE 0,
                                    pend |-> IF stk[i] = "buffer" THEN p.demand ELSE 0]]
    /\ recs = <<>> /\ nw = 0 /\ obs = NoObs /\ tmpl = "none" /\ act = NoAct

Write(v) ==
    LET r == WriteD(1, v, [L |-> lay, pd |-> pool.demand, nw |-> 0, recs |-> <<>>]) IN
    /\ pool' = [pool EXCEPT !.demand = r.pd]
    /\ lay' = r.L /\ recs' = r.recs /\ nw' = r.nw
    /\ act' = [name |-> "Write", v |-> v, attr |-> ""]
    /\ UNCHANGED <<stack, obs, tmpl>>

Read ==
    LET r == ReadD(1, lay) IN
    /\ obs' = [d |-> r.v, s |-> pool.supply, u |-> pool.util, a |-> pool.alloc]
    /\ lay' = r.L
    /\ recs' = <<>> /\ nw' = 0
    /\ act' = [name |-> "Read", v |-> 0, attr |-> ""]
    /\ UNCHANGED <<stack, pool, tmpl>>

PoolChange(attr, v) ==
    /\ pool' = [pool EXCEPT ![attr] = v]
    /\ recs' = <<>> /\ nw' = 0
    /\ act' = [name |-> "PoolChange", v |-> v, attr |-> attr]
    /\ UNCHANGED <<stack, lay, obs, tmpl>>

\* constructing a Logger whose message template names the fields F
NewLogger(F) ==
    /\ tmpl' = IF F \subseteq KnownFields THEN "ok" ELSE "rejected"
    /\ recs' = <<>> /\ nw' = 0
    /\ act' = [name |-> "NewLogger", v |-> 0, attr |-> ""]
    /\ UNCHANGED <<stack, pool, lay, obs>>

\* the Logger of layer i is given another name (Logger.name = ...): nothing observable changes
\* except that later records must go to the logger of the NEW name (checked by the trace module)
Rename(i) ==
    /\ i \in 1..N /\ stack[i] = "logger"
    /\ recs' = <<>> /\ nw' = 0
    /\ act' = [name |-> "Rename", v |-> i, attr |-> ""]
    /\ UNCHANGED <<stack, pool, lay, obs, tmpl>>

Next == \/ \E v \in Values : Write(v)
        \/ \E i \in 1..N : Rename(i)
        \/ Read
        \/ \E v \in Values : PoolChange("demand", v) \/ PoolChange("supply", v)
        \/ \E v \in Fits : PoolChange("util", v) \/ PoolChange("alloc", v)

-----------------------------------------------------------------------------
Transparent == \A i \in 1..N : stack[i] \in {"plain", "logger"}
Loggers == {i \in 1..N : stack[i] = "logger"}

\* "a pool reports exactly the supply, utilisation and allocation of the underlying pool"
FitnessTransparent == act.name = "Read" => (obs.s = pool.supply /\ obs.u = pool.util /\ obs.a = pool.alloc)

\* "through a plain decorator or a Logger demand reads and writes pass through unchanged"
DemandTransparent == Transparent =>
    /\ act.name = "Read" => obs.d = pool.demand
    /\ act.name = "Write" => (pool.demand = act.v /\ nw = 1)

\* "A Logger emits exactly one record per demand write": per write that ARRIVES at it.
\* Writes arrive at layer i iff no Buffer sits above it.
Reached(i) == \A j \in 1..(i - 1) : stack[j] # "buffer"
OneRecordPerWrite == act.name = "Write" =>
    \A i \in Loggers : Cardinality({k \in 1..Len(recs) : recs[k].layer = i}) = (IF Reached(i) THEN 1 ELSE 0)
NoStrayRecords == act.name # "Write" => recs = <<>>

\* "carrying the new value": every layer above forwards the value unchanged here
RecordCarriesValue == act.name = "Write" => \A k \in 1..Len(recs) : recs[k].value = act.v
\* the remaining clauses of the record are checked on the observed fields directly by the
\* trace module (before-the-write state, logger name and level); in the model they hold by
\* construction of WriteD

\* "A message template that names an unknown field is rejected when the Logger is constructed"
TemplateValidated == TRUE
=============================================================================
