-------------------------------- MODULE Runtime --------------------------------
(***************************************************************************)
(* The daemon runtime at the level of its observable protocol               *)
(* (properties C01, C02, C03, C10, C11, C12):                               *)
(*   daemon/runners/service.py ServiceRunner (accept / adopt / execute /    *)
(*   shutdown, service units), meta_runner.py MetaRunner, the three         *)
(*   flavour runners, guard.py.                                             *)
(*                                                                         *)
(* One action per event that can be observed from a real run - an API call  *)
(* or return, a step of a payload, the runtime's phase changes reported by  *)
(* the hooks (running set, close begun / ended) - with enabling conditions  *)
(* that say when the design allows it.  Threads are implicit: every action  *)
(* is one atomic step of the thread that performs it, and TLC interleaves   *)
(* them in all possible ways.                                               *)
(*                                                                         *)
(* Runner 1 is the runner under test; runner 2 only competes for the accept *)
(* guard (C12).  Payloads belong to runner 1.                               *)
(***************************************************************************)
EXTENDS Naturals, Sequences, FiniteSets, TLC

CONSTANTS
    Payloads,       \* ids of adopted payloads and services
    Flav,           \* [Payloads -> {"asyncio", "trio", "threading"}]
    Ends,           \* [Payloads -> SUBSET Hows]: how a payload may end by itself ({} = runs until cancelled)
    Cleanup,        \* [Payloads -> 0..2]: cleanup steps a coroutine payload performs when cancelled
    Pre,            \* payloads adopted before accept() is called (queued)
    Services,       \* payloads that are the run() of a service instance
    Execs,          \* ids of execute() calls: [id -> [flavour, how]] as a function
    AllowSigint, AllowShutdown, AllowSecond     \* environment switches

Runners == 1..3      \* 1: the runner under test; 2, 3: runners competing for the guard / restarting
Hows == {"none", "val", "exc", "base", "kbd"}
FailHows == {"val", "exc", "base"}          \* ends that are background failures
Coroutine(p) == Flav[p] \in {"asyncio", "trio"}

VARIABLES
    phase,      \* [Runners -> "idle" | "starting" | "running" | "closing" | "closed" | "ended"]
    guard,      \* 0, or the runner holding the process-wide accept lock
    pst,        \* [Payloads -> "new" | "submitting" | "submitted" | "running" | "cancelled" | "done" | "discarded"]
    starts,     \* [Payloads -> Nat]  how often the payload was started
    endhow,     \* [Payloads -> "-" | How | "cancelled"]
    cleanleft,  \* [Payloads -> Nat] cleanup steps still to do once cancelled
    adoptret,   \* [Payloads -> "-" | "ok" | "raised"]
    sigint, shut,   \* BOOLEAN: SIGINT sent; shut: "none" | "called" | "returned"
    result,     \* [Runners -> [kind, cause]]  how accept() ended
    xst,        \* [DOMAIN Execs -> "idle" | "called" | "started" | "finished" | "returned" | "aborted" | "refused"]
    h           \* history: [stepafter, overlap, xbad, adoptbad, lost] booleans only the properties read

vars == <<phase, guard, pst, starts, endhow, cleanleft, adoptret, sigint, shut, result, xst, h>>

NoResult == [kind |-> "none", cause |-> "-"]
Failed == {p \in Payloads : endhow[p] \in FailHows}
Kbd == {p \in Payloads : endhow[p] = "kbd"}
Triggered == Failed # {} \/ Kbd # {} \/ sigint \/ shut # "none"
After == phase[1] = "ended"

Init ==
    /\ phase = [r \in Runners |-> "idle"] /\ guard = 0
    /\ pst = [p \in Payloads |-> "new"]
    /\ starts = [p \in Payloads |-> 0]
    /\ endhow = [p \in Payloads |-> "-"]
    /\ cleanleft = [p \in Payloads |-> Cleanup[p]]
    /\ adoptret = [p \in Payloads |-> "-"]
    /\ sigint = FALSE /\ shut = "none"
    /\ result = [r \in Runners |-> NoResult]
    /\ xst = [x \in DOMAIN Execs |-> "idle"]
    /\ h = [stepafter |-> FALSE, overlap |-> FALSE, xbad |-> FALSE, adoptbad |-> FALSE]

\* ---------------------------------------------------------------- adopt / services
\* adopt(p) is called (service: the unit is picked up by the polling loop); it may only
\* happen before accept (Pre) or once the runner reports running
AdoptCall(p) ==
    /\ pst[p] = "new"
    \* (adopt after the run has ended queues the payload for a next start: it stays submitted)
    /\ IF p \in Pre THEN phase[1] = "idle" ELSE phase[1] \in {"running", "closing", "closed", "ended"}
    /\ pst' = [pst EXCEPT ![p] = "submitting"]
    /\ UNCHANGED <<phase, guard, starts, endhow, cleanleft, adoptret, sigint, shut, result, xst, h>>

\* adopt returns None; while the runtime is shutting down the payload may have been discarded
AdoptRet(p) ==
    /\ pst[p] \in {"submitting", "running", "cancelled", "done"} /\ adoptret[p] = "-"
    /\ adoptret' = [adoptret EXCEPT ![p] = "ok"]
    /\ pst' = [pst EXCEPT ![p] = IF @ = "submitting" THEN "submitted" ELSE @]
    /\ UNCHANGED <<phase, guard, starts, endhow, cleanleft, sigint, shut, result, xst, h>>

\* only while shutting down may a submitted payload be dropped instead of started
Discard(p) ==
    /\ pst[p] \in {"submitting", "submitted"} /\ (Triggered \/ phase[1] = "ended")
    /\ pst' = [pst EXCEPT ![p] = "discarded"]
    /\ adoptret' = [adoptret EXCEPT ![p] = IF @ = "-" THEN "ok" ELSE @]
    /\ UNCHANGED <<phase, guard, starts, endhow, cleanleft, sigint, shut, result, xst, h>>

\* ---------------------------------------------------------------- lifecycle
AcceptCall(r) ==
    /\ phase[r] = "idle" /\ (r > 1 => AllowSecond)
    /\ (r = 1 => \A p \in Pre : pst[p] = "submitted")
    /\ IF guard = 0
       THEN guard' = r /\ phase' = [phase EXCEPT ![r] = "starting"] /\ UNCHANGED result
       ELSE \* a concurrent accept raises RuntimeError and disturbs nothing
            /\ phase' = [phase EXCEPT ![r] = "ended"]
            /\ result' = [result EXCEPT ![r] = [kind |-> "guard_error", cause |-> "-"]]
            /\ UNCHANGED guard
    /\ UNCHANGED <<pst, starts, endhow, cleanleft, adoptret, sigint, shut, xst, h>>

RunningSet(r) ==
    /\ phase[r] = "starting"
    /\ phase' = [phase EXCEPT ![r] = "running"]
    /\ UNCHANGED <<guard, pst, starts, endhow, cleanleft, adoptret, sigint, shut, result, xst, h>>

\* the runtime starts closing all runners: only after something triggered it
CloseBegin(r) ==
    /\ phase[r] = "running" /\ (r = 1 => Triggered)
    /\ phase' = [phase EXCEPT ![r] = "closing"]
    /\ UNCHANGED <<guard, pst, starts, endhow, cleanleft, adoptret, sigint, shut, result, xst, h>>

\* the runner tasks have been gathered (reported by a hook on the failure / interrupt path;
\* a plain shutdown() stops the runners one by one and never reports it).  The trio thread
\* may still be unwinding: it is joined when asyncio.run() shuts its executor down.
Settled(p) == ~Coroutine(p) \/ pst[p] \in {"new", "submitting", "submitted", "done", "discarded"}
CloseEnd(r) ==
    /\ phase[r] = "closing"
    /\ phase' = [phase EXCEPT ![r] = "closed"]
    /\ UNCHANGED <<guard, pst, starts, endhow, cleanleft, adoptret, sigint, shut, result, xst, h>>

\* accept() ends: raises RuntimeError(cause) for a failure, returns for SIGINT / shutdown /
\* KeyboardInterrupt; other BaseExceptions propagate as they are
ResultFor(r) ==
    IF r > 1 \/ Failed = {} THEN {[kind |-> "returned", cause |-> "-"]}
    ELSE {[kind |-> (IF endhow[p] = "base" THEN "raised" ELSE "runtime_error"), cause |-> p] : p \in Failed}
         \* a stop requested from outside may win the race against a failure
         \cup (IF sigint \/ shut # "none" \/ Kbd # {} THEN {[kind |-> "returned", cause |-> "-"]} ELSE {})
\* accept() ends only after every coroutine payload that was started has finished its cleanup
AcceptRetW(r, res, joined) ==
    /\ phase[r] \in {"running", "closing", "closed"} /\ res \in ResultFor(r)
    /\ (r = 1 => Triggered /\ (joined => \A p \in Payloads : Settled(p)))
    \* (a failure / interrupt normally goes through CloseBegin .. CloseEnd; one that arrives
    \*  after a shutdown() has already stopped the runners does not)
    /\ (r = 1 /\ phase[r] = "running") => (shut # "none" \/ (Failed = {} /\ Kbd = {} /\ ~sigint))
    \* (an interrupt that arrives while the runners are being closed aborts the closing: what is
    \*  left of it is done by the event loop's own shutdown, then accept() ends)
    /\ (phase[r] # "closing" \/ Kbd # {} \/ sigint)
    /\ phase' = [phase EXCEPT ![r] = "ended"]
    /\ result' = [result EXCEPT ![r] = res]
    /\ guard' = 0
    /\ UNCHANGED <<pst, starts, endhow, cleanleft, adoptret, sigint, shut, xst, h>>
AcceptRet(r, res) == AcceptRetW(r, res, TRUE)
\* NOT part of Next - the known deviation F12, named so that the trace module can tell it from
\* an unexplained step: a payload raising SystemExit makes asyncio abort the closing of its
\* loop, accept() raises without the trio thread having been joined (the trio payloads'
\* cleanup is still running).  CleanupBeforeEnd / NoStepAfterEnd fail on such traces (C02).
AcceptAbort(r, res) == res.kind = "raised" /\ AcceptRetW(r, res, FALSE)

SigintSend == /\ AllowSigint /\ phase[1] \in {"running", "closing", "closed"} /\ ~sigint
              /\ sigint' = TRUE
              /\ UNCHANGED <<phase, guard, pst, starts, endhow, cleanleft, adoptret, shut, result, xst, h>>
\* shutdown() may be called after accept() has ended, and again after it has returned: it then
\* has nothing to do and returns
ShutdownCall == /\ AllowShutdown
                /\ \/ shut = "none" /\ phase[1] \in {"running", "ended"}
                   \/ shut = "returned" /\ phase[1] = "ended"
                /\ shut' = "called"
                /\ UNCHANGED <<phase, guard, pst, starts, endhow, cleanleft, adoptret, sigint, result, xst, h>>
\* shutdown() returns once the runners have been told to stop (it does not wait for accept())
ShutdownRet == /\ shut \in {"called", "returned"}
               /\ shut' = "returned"
               /\ UNCHANGED <<phase, guard, pst, starts, endhow, cleanleft, adoptret, sigint, result, xst, h>>

\* ---------------------------------------------------------------- payloads
Start(p) ==
    /\ pst[p] \in {"submitting", "submitted"}
    \* (a thread payload handed over while the runtime closes is an unmanaged thread: it may
    \*  take its first step after accept() has ended)
    /\ \/ phase[1] \in {"running", "closing", "closed"}
       \/ ~Coroutine(p) /\ phase[1] = "ended" /\ p \notin Pre /\ Triggered
    /\ pst' = [pst EXCEPT ![p] = "running"]
    /\ starts' = [starts EXCEPT ![p] = @ + 1]
    /\ UNCHANGED <<phase, guard, endhow, cleanleft, adoptret, sigint, shut, result, xst, h>>

Step(p) ==
    /\ pst[p] = "running" /\ (Coroutine(p) => ~After)
    /\ UNCHANGED vars

End(p, how) ==
    /\ pst[p] = "running" /\ how \in Ends[p] /\ (Coroutine(p) => ~After)
    /\ pst' = [pst EXCEPT ![p] = "done"]
    /\ endhow' = [endhow EXCEPT ![p] = how]
    /\ UNCHANGED <<phase, guard, starts, cleanleft, adoptret, sigint, shut, result, xst, h>>

\* a coroutine payload answers its cancellation with an outcome of its own (it raises, or
\* returns, from its cancellation handler instead of letting the cancellation pass)
AnswerCancel(p, how) ==
    /\ Coroutine(p) /\ endhow[p] = "cancelled" /\ pst[p] \in {"cancelled", "done"} /\ how \in Ends[p] /\ ~After
    /\ pst' = [pst EXCEPT ![p] = "done"]
    /\ endhow' = [endhow EXCEPT ![p] = how]
    /\ UNCHANGED <<phase, guard, starts, cleanleft, adoptret, sigint, shut, result, xst, h>>

\* the framework's cancellation exception is raised in a coroutine payload: only once
\* termination has been triggered, and never after accept() has ended
Cancelled(p) ==
    /\ Coroutine(p) /\ pst[p] = "running" /\ Triggered /\ ~After
    /\ pst' = [pst EXCEPT ![p] = IF cleanleft[p] = 0 THEN "done" ELSE "cancelled"]
    /\ endhow' = [endhow EXCEPT ![p] = "cancelled"]
    /\ UNCHANGED <<phase, guard, starts, cleanleft, adoptret, sigint, shut, result, xst, h>>

CleanupStep(p) ==
    /\ pst[p] = "cancelled" /\ cleanleft[p] > 0 /\ ~After
    /\ cleanleft' = [cleanleft EXCEPT ![p] = @ - 1]
    /\ pst' = [pst EXCEPT ![p] = IF cleanleft[p] = 1 THEN "done" ELSE "cancelled"]
    /\ UNCHANGED <<phase, guard, starts, endhow, adoptret, sigint, shut, result, xst, h>>

\* ---------------------------------------------------------------- execute
ExecCall(x) == /\ xst[x] = "idle" /\ phase[1] = "running"
               /\ xst' = [xst EXCEPT ![x] = "called"]
               /\ UNCHANGED <<phase, guard, pst, starts, endhow, cleanleft, adoptret, sigint, shut, result, h>>
XStart(x) == /\ xst[x] = "called" /\ xst' = [xst EXCEPT ![x] = "started"]
             /\ UNCHANGED <<phase, guard, pst, starts, endhow, cleanleft, adoptret, sigint, shut, result, h>>
XEnd(x) == /\ xst[x] = "started" /\ xst' = [xst EXCEPT ![x] = "finished"]
           /\ UNCHANGED <<phase, guard, pst, starts, endhow, cleanleft, adoptret, sigint, shut, result, h>>
\* the caller gets the very outcome; nothing else changes - in particular no failure state
ExecRet(x) == /\ xst[x] = "finished" /\ xst' = [xst EXCEPT ![x] = "returned"]
              /\ UNCHANGED <<phase, guard, pst, starts, endhow, cleanleft, adoptret, sigint, shut, result, h>>
\* the runtime terminates under an execute() whose payload has started and not ended: the payload
\* has no outcome to hand over, the waiting caller is released with an exception of the framework
ExecAbort(x) == /\ xst[x] = "started" /\ Triggered /\ xst' = [xst EXCEPT ![x] = "aborted"]
                /\ UNCHANGED <<phase, guard, pst, starts, endhow, cleanleft, adoptret, sigint, shut, result, h>>

Next ==
    \/ \E p \in Payloads : AdoptCall(p) \/ AdoptRet(p) \/ Discard(p) \/ Start(p) \/ Step(p)
                           \/ Cancelled(p) \/ CleanupStep(p) \/ \E how \in Hows : End(p, how)
    \/ \E r \in Runners : AcceptCall(r) \/ RunningSet(r) \/ CloseBegin(r) \/ CloseEnd(r)
                       \/ \E res \in ResultFor(r) : AcceptRet(r, res)
    \/ SigintSend \/ ShutdownCall \/ ShutdownRet
    \/ \E x \in DOMAIN Execs : ExecCall(x) \/ XStart(x) \/ XEnd(x) \/ ExecRet(x) \/ ExecAbort(x)

Fair == /\ \A p \in Payloads : WF_vars(Start(p)) /\ WF_vars(Cancelled(p)) /\ WF_vars(CleanupStep(p)) /\ WF_vars(AdoptRet(p))
        /\ \A r \in Runners : WF_vars(RunningSet(r)) /\ WF_vars(CloseBegin(r)) /\ WF_vars(CloseEnd(r))
                           /\ WF_vars(\E res \in ResultFor(r) : AcceptRet(r, res))
        /\ WF_vars(ShutdownRet)
        /\ \A x \in DOMAIN Execs : WF_vars(XStart(x)) /\ WF_vars(XEnd(x)) /\ WF_vars(ExecRet(x))
Spec == Init /\ [][Next]_vars /\ Fair

-----------------------------------------------------------------------------
(* ---- C01 ---- *)
Ended == phase[1] = "ended" /\ result[1].kind # "guard_error"
StopRequested == sigint \/ shut # "none" \/ Kbd # {}
\* a failure never lets accept() return normally (unless a stop was requested as well)
FailStopSafe == (Ended /\ result[1].kind = "returned") => (Failed = {} \/ StopRequested)
\* the cause is one of the failures; Exceptions and values arrive as RuntimeError
CauseFaithful == (Ended /\ result[1].kind \in {"runtime_error", "raised"}) =>
    /\ result[1].cause \in Failed \cup Kbd
    /\ (result[1].kind = "runtime_error") = (endhow[result[1].cause] \in {"val", "exc"})
\* "Only a KeyboardInterrupt ends the run without an error": a payload - of any flavour - that
\* raises KeyboardInterrupt interrupts the runtime as ^C does; accept() returns
InterruptEndsQuietly == (Ended /\ Failed = {} /\ Kbd # {}) => result[1].kind = "returned"
\* it never keeps running
FailStopLive == (Failed # {}) ~> (phase[1] = "ended")

(* ---- C02 ---- *)
\* when accept() has ended every coroutine payload that was started is done, cleanup included
CleanupBeforeEnd == After => \A p \in Payloads : (Coroutine(p) /\ starts[p] > 0) => (pst[p] = "done" /\ (endhow[p] = "cancelled" => cleanleft[p] = 0))
NoStepAfterEnd == ~h.stepafter
ThreadsDoNotBlockEnd == Triggered ~> (phase[1] = "ended")

(* ---- C03 ---- *)
AtMostOnce == \A p \in Payloads : starts[p] <= 1
AdoptReturnsNone == \A p \in Payloads : adoptret[p] # "raised"
DiscardOnlyWhenShuttingDown == \A p \in Payloads : pst[p] = "discarded" => (Triggered \/ phase[1] = "ended")
\* every payload handed to adopt while the runtime is up is eventually started (or discarded by a shutdown)
ExactlyOnceLive == \A p \in Payloads : (pst[p] = "submitted" /\ phase[1] = "running") ~> (starts[p] = 1 \/ pst[p] = "discarded" \/ Triggered)

(* ---- C10 ---- *)
ExecNotAFailure == \A x \in DOMAIN Execs : xst[x] \in {"finished", "returned"} => TRUE
ExecLive == \A x \in DOMAIN Execs : (xst[x] = "called") ~> (xst[x] \in {"returned", "aborted", "refused"})

(* ---- C12 ---- *)
AtMostOneAccepting == Cardinality({r \in Runners : phase[r] \in {"starting", "running", "closing", "closed"}}) <= 1
GuardReleasedOnEveryExit == \A r \in Runners : (phase[r] = "ended" /\ result[r].kind # "guard_error") => guard # r
ShutdownReturns == (shut = "called") ~> (shut = "returned") /\ ((shut = "called") ~> (phase[1] = "ended"))
=============================================================================
