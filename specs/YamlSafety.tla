------------------------------ MODULE YamlSafety ------------------------------
(***************************************************************************)
(* What loading a YAML configuration may construct (property C18).          *)
(*   daemon/core/config.py: COBalDLoader(SafeLoader) + registered tags      *)
(*                                                                         *)
(* A document is abstracted to the sequence of its TAGGED nodes in the      *)
(* order in which PyYAML reaches their constructors; a node is a record     *)
(*   [kind, target]                                                         *)
(* kind "plugin"   a tag registered as a plugin (target: the plugin)        *)
(*      any other  a tag kind of PyYAML's python/* family or an unregistered *)
(*                 !tag (target: the object the tag names)                   *)
(* The loader is abstracted to UnsafeHandled: the set of non-plugin tag     *)
(* kinds for which the loader CLASS has a constructor (exact or by prefix). *)
(* It is not chosen by hand: the harness probes the real COBalDLoader after *)
(* add_constructor_plugins and passes the result in.  For a SafeLoader it   *)
(* is empty; for Loader / FullLoader / UnsafeLoader it is not, and then the *)
(* model itself violates OnlyRegistered.                                    *)
(***************************************************************************)
EXTENDS Naturals, Sequences, FiniteSets, TLC

CONSTANTS UnsafeHandled,    \* tag kinds the loader class would construct although they are no plugins
          BadKinds,         \* all non-plugin tag kinds
          Targets           \* names a bad tag can point at

VARIABLES doc, i, effects, outcome
vars == <<doc, i, effects, outcome>>

InitWith(d) == doc = d /\ i = 1 /\ effects = {} /\ outcome = "loading"

\* PyYAML finds a constructor for the node's tag and runs it
Construct ==
    /\ outcome = "loading" /\ i <= Len(doc)
    /\ (doc[i].kind = "plugin" \/ doc[i].kind \in UnsafeHandled)
    /\ effects' = effects \cup {doc[i].target}      \* imported / called / instantiated
    /\ i' = i + 1
    /\ UNCHANGED <<doc, outcome>>

\* no constructor: yaml.constructor.ConstructorError
Reject ==
    /\ outcome = "loading" /\ i <= Len(doc)
    /\ doc[i].kind # "plugin" /\ doc[i].kind \notin UnsafeHandled
    /\ outcome' = "rejected"
    /\ UNCHANGED <<doc, i, effects>>

Finish ==
    /\ outcome = "loading" /\ i > Len(doc)
    /\ outcome' = "loaded"
    /\ UNCHANGED <<doc, i, effects>>

Next == Construct \/ Reject \/ Finish

-----------------------------------------------------------------------------
HasBad == \E k \in 1..Len(doc) : doc[k].kind # "plugin"
PluginTargets == {doc[k].target : k \in {j \in 1..Len(doc) : doc[j].kind = "plugin"}}

\* "constructs Python objects only through tags registered as plugins ... nothing it names
\*  is imported, called or instantiated"
BadTargets == {doc[k].target : k \in {j \in 1..Len(doc) : doc[j].kind # "plugin"}}
OnlyRegistered == effects \cap (BadTargets \cup Targets) = {}
\* "Any document that uses python/* tags or an unregistered !tag, anywhere in the document,
\*  is rejected with an error"
BadIsRejected == (outcome # "loading" /\ HasBad) => outcome = "rejected"
=============================================================================
