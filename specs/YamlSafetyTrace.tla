---------------------------- MODULE YamlSafetyTrace ----------------------------
(* Traces: {doc:[{kind,target}..], events:[{e:"Effect", target}.., {e:"End", outcome}]}  *)
(* Effect events are what the canaries recorded (plugin constructions and anything a     *)
(* bad tag names being imported / called / instantiated).                                 *)
EXTENDS YamlSafety, Json, IOUtils, TLCExt
Traces == JsonDeserialize(IOEnv.TRACE_FILE)
NT == Len(Traces)
VARIABLES tid, l, nc
tvars == <<vars, tid, l, nc>>
Tr == Traces[tid]
Ev == Tr.events[l]
TraceInit == /\ tid \in 1..NT /\ l = 1 /\ nc = FALSE /\ InitWith(Traces[tid].doc)
Step == l <= Len(Tr.events) /\ l' = l + 1 /\ UNCHANGED tid
TEffect == /\ Ev.e = "Effect"
           /\ effects' = effects \cup {Ev.target}
           \* which node it belongs to is inferred: the next node with that target
           /\ LET cand == {k \in i..Len(doc) : doc[k].target = Ev.target} IN
              /\ i' = IF cand = {} THEN i ELSE (CHOOSE k \in cand : \A m \in cand : k <= m) + 1
              /\ nc' = (nc \/ cand = {} \/ ~(doc[i' - 1].kind = "plugin" \/ doc[i' - 1].kind \in UnsafeHandled))
           /\ UNCHANGED <<doc, outcome>>
TEnd == /\ Ev.e = "End"
        /\ outcome' = Ev.outcome
        /\ UNCHANGED <<doc, i, effects>>
        /\ nc' = (nc \/ ~(Reject \/ Finish))
TraceNext == Step /\ (TEffect \/ TEnd)
TraceSpec == TraceInit /\ [][TraceNext]_tvars
Mon(name, ok) == ok \/ PrintT(<<"PV", tid, l - 1, name>>)
Monitor == /\ Mon("OnlyRegistered", OnlyRegistered)
           /\ Mon("BadIsRejected", BadIsRejected)
           /\ (l <= Len(Tr.events) \/ PrintT(<<"END", tid, l - 1, nc>>))
NCMonitor == (nc' /\ ~nc) => PrintT(<<"NC", tid, l, Ev.e>>)
=============================================================================
