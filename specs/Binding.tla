-------------------------------- MODULE Binding --------------------------------
(***************************************************************************)
(* Eager argument checking of templates (property C04, second half):        *)
(*   interfaces/_partial.py  Partial.__init__/_check_signature/__call__     *)
(*                                                                         *)
(* A constructor signature is                                               *)
(*   [pos     : Seq(name)   positional-or-keyword parameters after the      *)
(*                          implicit first one (self; and `target` for      *)
(*                          controllers / decorators: leaf = FALSE)         *)
(*    varargs : BOOLEAN, kwonly : SUBSET names, varkw : BOOLEAN, leaf]      *)
(* Arguments are supplied in calls (Cls.s(...) first, then currying); a     *)
(* call is [npos, kws : SUBSET names, pool : BOOLEAN]  (pool: the first     *)
(* positional argument is a Pool instance - an attempt to pass the target). *)
(* CanBind is Python's call-binding rule for a PARTIAL argument list        *)
(* (inspect.Signature.bind_partial): missing arguments are fine, anything   *)
(* that can never bind is not.                                              *)
(***************************************************************************)
EXTENDS Naturals, Sequences, FiniteSets, TLC

VARIABLES sig, variant, calls, k, acc, outcome
vars == <<sig, variant, calls, k, acc, outcome>>

NoAcc == [npos |-> 0, kws |-> {}]

\* accumulated arguments acc = [npos, kws] can still be bound to sig
CanBind(s, a) ==
    LET filled == IF a.npos <= Len(s.pos) THEN a.npos ELSE Len(s.pos)
        byname == {s.pos[i] : i \in (filled + 1)..Len(s.pos)} \cup s.kwonly
        filledNames == {s.pos[i] : i \in 1..filled}
    IN /\ (a.npos <= Len(s.pos) \/ s.varargs)                       \* not too many positionals
       /\ \A w \in a.kws : w \in byname \/ (s.varkw /\ w \notin filledNames)   \* no unknown / doubly given name

\* an attempt to pass the target: by keyword, or a Pool as first positional (_partial.py:54)
TargetAttempt(c, first) == "target" \in c.kws \/ (first /\ c.pool)

InitWith(s, v, cs) ==
    /\ sig = s /\ variant = v /\ calls = cs /\ k = 1 /\ acc = NoAcc /\ outcome = "template"

\* the k-th supply of arguments: rejected at once, or a new template
Supply ==
    /\ outcome = "template" /\ k <= Len(calls)
    /\ LET c == calls[k]
           dup == c.kws \cap acc.kws # {}                            \* same keyword in two calls
           acc2 == [npos |-> acc.npos + c.npos, kws |-> acc.kws \cup c.kws]
           \* the Pool check looks at the first positional of the ACCUMULATED arguments
           attempt == "target" \in acc2.kws \/ (acc.npos = 0 /\ c.npos > 0 /\ c.pool)
       IN IF dup \/ attempt \/ ~CanBind(sig, acc2)
          THEN outcome' = "rejected" /\ UNCHANGED acc
          ELSE outcome' = "template" /\ acc' = acc2
    /\ k' = k + 1
    /\ UNCHANGED <<sig, variant, calls>>
Next == Supply

-----------------------------------------------------------------------------
\* what should happen at the call that was just made (index k - 1)
Prev == calls[k - 1]
PrevAcc == acc      \* acc is unchanged by a rejected call, extended by an accepted one
\* "Arguments that can never bind ... are rejected with TypeError at the moment they are
\*  supplied" / "Arguments that can bind are never rejected": evaluated by the trace module on
\*  the observed outcome of each call against ShouldReject of the arguments accumulated so far
ShouldReject(s, before, c) ==
    LET after == [npos |-> before.npos + c.npos, kws |-> before.kws \cup c.kws] IN
    \/ c.kws \cap before.kws # {}
    \/ "target" \in after.kws
    \/ (before.npos = 0 /\ c.npos > 0 /\ c.pool)
    \/ ~CanBind(s, after)
=============================================================================
