------------------------------- MODULE Composite -------------------------------
(***************************************************************************)
(* UniformComposite and WeightedComposite (property C07)                    *)
(*   composite/uniform.py, composite/weighted.py                            *)
(*                                                                         *)
(* A child is a record [s, u, a, d]: supply (whole units), utilisation and  *)
(* allocation (quarters), demand (units scaled by L).  L is a common        *)
(* multiple of every possible total weight and child count, so that every   *)
(* share D * w_i / W is an exact integer D * L * w_i / W in the model.      *)
(* The composite's utilisation / allocation are scaled by 4 * L.            *)
(*                                                                         *)
(* kind in {"uniform", "wsupply", "wutil", "walloc"} is fixed in Init.      *)
(* Actions: Write(D), Read, SetChild(i, attr, v), AddChild(c), Remove(i).   *)
(***************************************************************************)
EXTENDS Integers, Sequences, FiniteSets, TLC

CONSTANTS L, Kinds, MaxK, DemandVals, SupplyVals, FitVals

VARIABLES kind, ch, cdemand, obs, act

vars == <<kind, ch, cdemand, obs, act>>

RECURSIVE SumSeq(_)
SumSeq(s) == IF s = <<>> THEN 0 ELSE Head(s) + SumSeq(Tail(s))

K == Len(ch)
Weight(c) == CASE kind = "wsupply" -> c.s [] kind = "wutil" -> c.u [] kind = "walloc" -> c.a [] OTHER -> 1
W == SumSeq([i \in 1..K |-> Weight(ch[i])])
TotalSupply == SumSeq([i \in 1..K |-> ch[i].s])

\* the share of child i of a demand D (scaled by L)
Share(D, i) == IF kind = "uniform" \/ W = 0 THEN (D * L) \div K
               ELSE (D * L * Weight(ch[i])) \div W

\* utilisation ("u") or allocation ("a") of the composite, scaled by 4 * L
Fitness(f) ==
    LET val(i) == IF f = "u" THEN ch[i].u ELSE ch[i].a IN
    IF kind = "uniform"
    THEN IF K = 0 THEN 4 * L ELSE (L * SumSeq([i \in 1..K |-> val(i)])) \div K
    ELSE IF W = 0 THEN (IF TotalSupply > 0 THEN 0 ELSE 4 * L)
         ELSE (L * SumSeq([i \in 1..K |-> val(i) * Weight(ch[i])])) \div W

NoChild == [s |-> 0, u |-> 0, a |-> 0, d |-> 0]
NoObs == [demand |-> 0, supply |-> 0, u |-> 0, a |-> 0]

InitWith(k, children) ==
    /\ kind = k /\ ch = children
    /\ cdemand = SumSeq([i \in 1..Len(children) |-> children[i].d]) \div L
    /\ obs = NoObs
    /\ act = [name |-> "Init", D |-> 0, i |-> 0, attr |-> "", v |-> 0, c |-> NoChild]

Init == \E k \in Kinds : InitWith(k, <<>>)

Write(D) ==
    /\ cdemand' = D
    /\ ch' = [i \in 1..K |-> [ch[i] EXCEPT !.d = Share(D, i)]]
    /\ act' = [name |-> "Write", D |-> D, i |-> 0, attr |-> "", v |-> 0, c |-> NoChild]
    /\ UNCHANGED <<kind, obs>>

Read ==
    /\ obs' = [demand |-> cdemand, supply |-> TotalSupply, u |-> Fitness("u"), a |-> Fitness("a")]
    /\ act' = [name |-> "Read", D |-> 0, i |-> 0, attr |-> "", v |-> 0, c |-> NoChild]
    /\ UNCHANGED <<kind, ch, cdemand>>

SetChild(i, attr, v) ==
    /\ i \in 1..K
    /\ ch' = [ch EXCEPT ![i][attr] = v]
    /\ act' = [name |-> "SetChild", D |-> 0, i |-> i, attr |-> attr, v |-> v, c |-> NoChild]
    /\ UNCHANGED <<kind, cdemand, obs>>

AddChild(c) ==
    /\ K < MaxK
    /\ ch' = Append(ch, c)
    /\ act' = [name |-> "AddChild", D |-> 0, i |-> 0, attr |-> "", v |-> 0, c |-> c]
    /\ UNCHANGED <<kind, cdemand, obs>>

Remove(i) ==
    /\ i \in 1..K
    /\ ch' = [j \in 1..(K - 1) |-> IF j < i THEN ch[j] ELSE ch[j + 1]]
    /\ act' = [name |-> "Remove", D |-> 0, i |-> i, attr |-> "", v |-> 0, c |-> NoChild]
    /\ UNCHANGED <<kind, cdemand, obs>>

NewChildren == {[s |-> s, u |-> u, a |-> a, d |-> 0] : s \in SupplyVals, u \in FitVals, a \in FitVals}

Next == \/ \E D \in DemandVals : Write(D)
        \/ Read
        \/ \E i \in 1..K : \/ \E v \in SupplyVals : SetChild(i, "s", v)
                           \/ \E v \in FitVals : SetChild(i, "u", v) \/ SetChild(i, "a", v)
                           \/ Remove(i)
        \/ \E c \in NewChildren : AddChild(c)

Spec == Init /\ [][Next]_vars

-----------------------------------------------------------------------------
(* Properties.  Tol is the slack allowed to OBSERVED shares (each was rounded to  *)
(* an integer after scaling); the specification itself satisfies them with Tol 0. *)
CONSTANT Tol
Abs(x) == IF x < 0 THEN 0 - x ELSE x
AfterWrite == act.name = "Write" /\ K >= 1
D0 == act.D

\* "the children's demands sum to D up to floating-point rounding"
Conservation == AfterWrite => Abs(SumSeq([i \in 1..K |-> ch[i].d]) - D0 * L) <= Tol * K

\* "each share is proportional to the child's weight (equal shares for the uniform
\*  composite or when all weights are zero)"
Proportional == AfterWrite => \A i \in 1..K :
    IF kind = "uniform" \/ W = 0 THEN Abs(ch[i].d * K - D0 * L) <= Tol * K
    ELSE Abs(ch[i].d * W - D0 * L * Weight(ch[i])) <= Tol * W

\* "and lies between 0 and D"
ShareBounds == AfterWrite => \A i \in 1..K : ch[i].d >= 0 - Tol /\ ch[i].d <= D0 * L + Tol

\* "the composite reads back exactly D"
ReadsBackD == act.name = "Read" => obs.demand = cdemand

\* "Its supply is the sum of its children's supplies"
SupplyIsSum == act.name = "Read" => obs.supply = TotalSupply

\* "its utilisation and allocation never leave the range spanned by its children's
\*  values.  The only exceptions are the documented fallbacks: 1.0 without children or
\*  without supply, 0.0 when all weights vanish although there is supply."
InRange(x, f) == \E i, j \in 1..K :
    LET val(n) == IF f = "u" THEN ch[n].u ELSE ch[n].a IN
    val(i) * L - Tol <= x /\ x <= val(j) * L + Tol
FallbackOne == K = 0 \/ (kind # "uniform" /\ TotalSupply = 0)
FallbackZero == kind # "uniform" /\ K > 0 /\ W = 0 /\ TotalSupply > 0
FitnessOk(x, f) == \/ (K > 0 /\ InRange(x, f))
                   \/ (FallbackOne /\ x = 4 * L)
                   \/ (FallbackZero /\ x = 0)
FitnessConvex == act.name = "Read" => FitnessOk(obs.u, "u") /\ FitnessOk(obs.a, "a")
\* the fallbacks are not only allowed but are what is documented
Fallbacks == act.name = "Read" =>
    /\ K = 0 => (obs.u = 4 * L /\ obs.a = 4 * L)
    /\ (kind # "uniform" /\ K > 0 /\ W = 0) =>
            (obs.u = (IF TotalSupply > 0 THEN 0 ELSE 4 * L) /\ obs.a = obs.u)
=============================================================================
