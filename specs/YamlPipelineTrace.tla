--------------------------- MODULE YamlPipelineTrace ---------------------------
(* Traces: {n, forms, failpos, events:[{e:"Construct", i, argsok}.., {e:"End", state,        *)
(*          len, order:[pos..], linked:[bool..]}]} from loading the rendered YAML file.       *)
EXTENDS YamlPipeline, Json, IOUtils, TLCExt
Traces == JsonDeserialize(IOEnv.TRACE_FILE)
NT == Len(Traces)
VARIABLES tid, l, nc
tvars == <<vars, tid, l, nc>>
Tr == Traces[tid]
Ev == Tr.events[l]
TraceInit == /\ tid \in 1..NT /\ l = 1 /\ nc = FALSE /\ InitWith(Traces[tid].n, Traces[tid].forms, Traces[tid].failpos)
Step == l <= Len(Tr.events) /\ l' = l + 1 /\ UNCHANGED tid
TConstruct == /\ Ev.e = "Construct"
              /\ log' = Append(log, Ev.i)
              /\ argsok' = (argsok /\ Ev.argsok)
              /\ UNCHANGED <<n, forms, failpos, result>>
              /\ nc' = (nc \/ ~(result = Pending /\ Ev.i = NextPos))
TEnd == /\ Ev.e = "End"
        /\ result' = IF Ev.state = "ok" THEN [state |-> "ok", len |-> Ev.len, order |-> Ev.order, linked |-> Ev.linked]
                     ELSE [state |-> Ev.state]
        /\ UNCHANGED <<n, forms, failpos, log, argsok>>
        /\ nc' = (nc \/ ~(IF failpos = 0 THEN Return(result') ELSE (Ev.state = "raised" /\ log # <<>> /\ log[Len(log)] = failpos)))
TraceNext == Step /\ (TConstruct \/ TEnd)
TraceSpec == TraceInit /\ [][TraceNext]_tvars
Mon(name, ok) == ok \/ PrintT(<<"PV", tid, l - 1, name>>)
Monitor == /\ Mon("Linked", Linked)
           /\ Mon("OnceLastToFirst", OnceLastToFirst)
           /\ Mon("ArgsExact", ArgsExact)
           /\ Mon("NoPartial", NoPartial)
           /\ Mon("StopsAtFailure", StopsAtFailure)
           /\ (l <= Len(Tr.events) \/ PrintT(<<"END", tid, l - 1, nc>>))
NCMonitor == (nc' /\ ~nc) => PrintT(<<"NC", tid, l, Ev.e>>)
=============================================================================
