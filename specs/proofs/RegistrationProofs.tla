------------------------- MODULE RegistrationProofs -------------------------
(* TLAPS proofs for Registration.tla UNDER THE DOCUMENTED PROTOCOL                *)
(* (WaitForRunning = TRUE): adopt never raises and the main task is never broken  *)
(* by a concurrent registration - for ANY set of submitters and any assignment of *)
(* flavours (TLC checks the same for two and three submitters, and NoneLost).     *)
EXTENDS Registration, TLAPS

ASSUME Protocol == /\ WaitForRunning = TRUE
                   /\ FlavOf \in [Subs -> FlavourSet]

Inv == /\ mpc \in {"idle", "launch", "ready", "launched", "runset", "unqbegin", "direct", "cleared", "done"}
       /\ created \in 0..3 /\ token \in BOOLEAN /\ running \in BOOLEAN
       /\ spc \in [Subs -> {"start", "hit", "miss", "toqueue", "done"}]
       /\ sres \in [Subs -> {"-", "ok"}]
       /\ ksize \in Nat /\ uq \in Nat /\ keys \in Seq(FlavourSet)
       /\ (mpc = "idle" => created = 0 /\ ~running /\ ~token)
       /\ (mpc \notin {"idle", "launch"} => created = 3)
       /\ (mpc \notin {"idle", "launch", "ready"} => token)
       /\ (running => created = 3 /\ token /\ mpc \notin {"idle", "launch", "ready", "launched"})
       /\ (mpc \in {"launch", "ready", "launched"} => \A s \in Subs : spc[s] \in {"start", "done"})
       /\ (mpc # "idle" => \A s \in Subs : spc[s] \in {"start", "done", "hit"})
       /\ (\A s \in Subs : spc[s] = "hit" => running)
       /\ (mpc \in {"direct", "cleared"} => ksize = Len(keys))

LEMMA InitInv == Init => Inv
  BY DEF Init, Inv

LEMMA PresentAll == ASSUME created = 3, NEW f \in FlavourSet PROVE Present(f)
  BY DEF Present, Flavours, FlavourSet
LEMMA PresentNone == ASSUME created = 0, NEW f PROVE ~Present(f)
  BY DEF Present

LEMMA NextInv == Inv /\ [Next]_vars => Inv'
<1> SUFFICES ASSUME Inv, [Next]_vars PROVE Inv'
  OBVIOUS
<1> USE Protocol
<1>1. CASE AcceptBegin
  <2>1. keys' \in Seq(FlavourSet)
    BY <1>1 DEF Inv, AcceptBegin, FlavourSet
  <2> QED
    BY <1>1, <2>1 DEF Inv, AcceptBegin
<1>2. CASE LaunchCreate
  BY <1>2 DEF Inv, LaunchCreate
<1>3. CASE Ready
  BY <1>3 DEF Inv, Ready
<1>4. CASE SetRunning
  BY <1>4 DEF Inv, SetRunning
<1>5. CASE UnqEnter
  BY <1>5 DEF Inv, UnqEnter
<1>6. CASE IterFirst
  <2>1. Len(keys) \in Nat /\ ksize' = Len(keys)
    BY <1>6 DEF Inv, IterFirst
  <2>2. CASE 1 > Len(keys)
    <3>1. mpc' = "done" /\ keys' = <<>>
      BY <1>6, <2>2 DEF IterFirst, Advance
    <3> QED
      BY <1>6, <2>1, <3>1 DEF Inv, IterFirst
  <2>3. CASE ~(1 > Len(keys))
    <3>1. mpc' = "direct" /\ keys' = keys
      BY <1>6, <2>3 DEF IterFirst, Advance
    <3> QED
      BY <1>6, <2>1, <3>1 DEF Inv, IterFirst
  <2> QED
    BY <2>2, <2>3
<1>7. CASE RegisterClear
  BY <1>7 DEF Inv, RegisterClear
<1>8. CASE IterNext
  <2>1. Len(keys) \in Nat /\ ksize' = ksize /\ ksize = Len(keys) /\ uq' = uq + 1
    BY <1>8 DEF Inv, IterNext
  <2>2. CASE uq + 1 > Len(keys)
    <3>1. mpc' = "done" /\ keys' = <<>>
      BY <1>8, <2>1, <2>2 DEF IterNext, Advance
    <3> QED
      BY <1>8, <2>1, <3>1 DEF Inv, IterNext
  <2>3. CASE ~(uq + 1 > Len(keys))
    <3>1. mpc' = "direct" /\ keys' = keys
      BY <1>8, <2>1, <2>3 DEF IterNext, Advance
    <3> QED
      BY <1>8, <2>1, <3>1 DEF Inv, IterNext
  <2> QED
    BY <2>2, <2>3
<1>9. ASSUME NEW s \in Subs, Lookup(s) PROVE Inv'
  <2>1. CASE mpc = "idle"
    BY <1>9, <2>1, PresentNone DEF Inv, Lookup, MayStart
  <2>2. CASE mpc # "idle"
    <3>1. running /\ created = 3
      BY <1>9, <2>2 DEF Inv, Lookup, MayStart
    <3>2. Present(FlavOf[s])
      BY <3>1, PresentAll
    <3> QED
      BY <1>9, <2>2, <3>1, <3>2 DEF Inv, Lookup
  <2> QED
    BY <2>1, <2>2
<1>10. ASSUME NEW s \in Subs, Check(s) PROVE Inv'
  BY <1>10 DEF Inv, Check
<1>11. ASSUME NEW s \in Subs, Queue(s) PROVE Inv'
  BY <1>11 DEF Inv, Queue
<1>12. ASSUME NEW s \in Subs, Direct(s) PROVE Inv'
  BY <1>12 DEF Inv, Direct
<1>13. CASE UNCHANGED vars
  BY <1>13 DEF Inv, vars
<1> QED
  BY <1>1, <1>2, <1>3, <1>4, <1>5, <1>6, <1>7, <1>8, <1>9, <1>10, <1>11, <1>12, <1>13 DEF Next, MainNext, SubNext

THEOREM Safety == Spec => [](AdoptNeverRaises /\ MainSurvives)
<1>1. Inv => AdoptNeverRaises /\ MainSurvives
  BY DEF Inv, AdoptNeverRaises, MainSurvives
<1> QED
  BY InitInv, NextInv, <1>1, PTL DEF Spec
=============================================================================
