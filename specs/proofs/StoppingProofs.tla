--------------------------- MODULE StoppingProofs ---------------------------
(* TLAPS proofs that the safety invariants of Stopping.tla hold for ANY set of  *)
(* submitters and any flavour assignment (TLC checks them for two submitters). *)
EXTENDS Stopping, TLAPS

Inv == /\ TypeOK
       /\ spc \in [Subs -> {"start", "hit", "miss", "toqueue", "done"}]
       /\ sres \in [Subs -> {"-", "ok", "unknown_runner"}]
       /\ table \in BOOLEAN /\ alive \in BOOLEAN /\ running \in BOOLEAN
       /\ (~table => ~running)
       /\ (~alive => spc0 = "returned")
       /\ (mpc # "up" => spc0 = "returned")
       /\ \A s \in Subs : spc[s] = "miss" => ~running
       /\ \A s \in Subs : sres[s] \in {"-", "ok"}

LEMMA InitInv == Init => Inv
  BY DEF Init, Inv, TypeOK

LEMMA NextInv == Inv /\ [Next]_vars => Inv'
<1> SUFFICES ASSUME Inv, [Next]_vars PROVE Inv'
  OBVIOUS
<1>1. CASE Flag
  BY <1>1 DEF Inv, TypeOK, Flag
<1>2. CASE Waited
  BY <1>2 DEF Inv, TypeOK, Waited
<1>3. CASE StopAll
  BY <1>3 DEF Inv, TypeOK, StopAll
<1>4. CASE Finally
  BY <1>4 DEF Inv, TypeOK, Finally
<1>5. CASE End
  BY <1>5 DEF Inv, TypeOK, End
<1>6. ASSUME NEW s \in Subs, Lookup(s) PROVE Inv'
  BY <1>6 DEF Inv, TypeOK, Lookup
<1>7. ASSUME NEW s \in Subs, Check(s) PROVE Inv'
  BY <1>7 DEF Inv, TypeOK, Check
<1>8. ASSUME NEW s \in Subs, Queue(s) PROVE Inv'
  BY <1>8 DEF Inv, TypeOK, Queue
<1>9. ASSUME NEW s \in Subs, Direct(s) PROVE Inv'
  BY <1>9 DEF Inv, TypeOK, Direct
<1>10. CASE UNCHANGED vars
  BY <1>10 DEF Inv, TypeOK, vars
<1> QED
  BY <1>1, <1>2, <1>3, <1>4, <1>5, <1>6, <1>7, <1>8, <1>9, <1>10 DEF Next, ShutNext, MainNext, SubNext

THEOREM Safety == Spec => [](NoUnknownRunner /\ TableGoneOnlyWhenNotRunning /\ AdoptNeverRaises /\ EndAfterShutdownReturned)
<1>1. Inv => NoUnknownRunner /\ TableGoneOnlyWhenNotRunning /\ AdoptNeverRaises /\ EndAfterShutdownReturned
  BY DEF Inv, NoUnknownRunner, TableGoneOnlyWhenNotRunning, AdoptNeverRaises, EndAfterShutdownReturned
<1> QED
  BY InitInv, NextInv, <1>1, PTL DEF Spec
=============================================================================
