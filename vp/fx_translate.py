"""Fixture factories for C19/C05: importable dotted names whose calls are recorded.

Attribute names are generated on demand (PEP 562 module __getattr__), so every typed node of
a generated configuration tree gets its own distinguishable factory:
  okf_<id>  function      okc_<id>  class      holder.inner.okn_<id>  nested attribute
  raise_<id>  raises ValueError     cfgerr_<id>  raises ConfigurationError without location
  notcallable_<id>  an int          missing_<id>  no such attribute
"""
LOG = []  # (id, args, kwargs) in call order


class Made:
    def __init__(self, ident, args=(), kwargs=None):
        self.ident = ident
        self.args = args
        self.kwargs = kwargs or {}

    def __repr__(self):
        return "<Made %s>" % self.ident


def _factory(kind, ident):
    if kind in ("okf", "okn"):
        def make(*args, **kwargs):
            LOG.append((ident, args, kwargs))
            return Made(ident, args, kwargs)
        return make
    if kind == "okc":
        class Cls(Made):
            def __init__(self, *args, **kwargs):
                LOG.append((ident, args, kwargs))
                Made.__init__(self, ident, args, kwargs)
        return Cls
    if kind == "raise":
        def boom(*args, **kwargs):
            LOG.append((ident, args, kwargs))
            raise ValueError("factory %s fails" % ident)
        return boom
    if kind in ("raiseassert", "raiselookup"):
        def boom3(*args, **kwargs):
            LOG.append((ident, args, kwargs))
            if kind == "raiseassert":
                assert False, "factory %s rejects its arguments with an assertion" % ident
            raise KeyError("factory %s fails with a LookupError" % ident)
        return boom3
    if kind == "cfgerr":
        def boom2(*args, **kwargs):
            from cobald.daemon.config.mapping import ConfigurationError
            LOG.append((ident, args, kwargs))
            raise ConfigurationError(what="factory %s rejects its arguments" % ident)
        return boom2
    if kind == "notcallable":
        return 42
    raise AttributeError(kind)


class _Inner:
    def __getattr__(self, name):
        kind, _, ident = name.partition("_")
        if kind != "okn":
            raise AttributeError(name)
        return _factory(kind, int(ident))


class _Holder:
    inner = _Inner()


holder = _Holder()


def rebind(ident, generation):
    """(re)bind the module attribute rebind_<ident> to a factory of the given generation:
    the name must be resolved again by every translation"""
    def make(*args, **kwargs):
        LOG.append((ident, args, kwargs, generation))
        return Made(ident, args, kwargs)
    globals()["rebind_%d" % ident] = make


def __getattr__(name):
    kind, _, ident = name.partition("_")
    if kind in ("okf", "okc", "raise", "raiseassert", "raiselookup", "cfgerr", "notcallable") and ident.isdigit():
        return _factory(kind, int(ident))
    raise AttributeError(name)
