"""Recording pools and helpers shared by the drivers (test code, not repository code)."""
from cobald.interfaces import Pool

INF = 1000000  # PosInf of the specifications (any unit)
OFFGRID = 777777  # a result that is not on the specification's grid


class RecPool(Pool):
    """A pool whose four attributes are independent and whose demand writes are logged."""

    def __init__(self, supply=0.0, demand=0.0, utilisation=1.0, allocation=1.0, name="pool"):
        self._supply = supply
        self._demand = demand
        self._utilisation = utilisation
        self._allocation = allocation
        self.name = name
        self.writes = []  # every value written to .demand, in order
        self.on_write = None

    @property
    def supply(self):
        return self._supply

    @property
    def demand(self):
        return self._demand

    @demand.setter
    def demand(self, value):
        self.writes.append(value)
        self._demand = value
        if self.on_write is not None:
            self.on_write(self, value)

    @property
    def utilisation(self):
        return self._utilisation

    @property
    def allocation(self):
        return self._allocation

    def __repr__(self):
        return "<RecPool %s>" % self.name


def to_grid(x, q):
    """Python number -> integer in units of 1/q; infinities -> +-INF; anything off the grid
    (or not a number at all) -> OFFGRID.  Never rounds."""
    if isinstance(x, bool) or not isinstance(x, (int, float)):
        return OFFGRID
    if x == float("inf"):
        return INF
    if x == float("-inf"):
        return -INF
    if x != x:
        return OFFGRID
    y = x * q
    if y != int(y) or abs(y) >= 500000:
        return OFFGRID
    return int(y)


def from_grid(h, q, as_int=False):
    if h >= INF:
        return float("inf")
    if h <= -INF:
        return float("-inf")
    if as_int:
        assert h % q == 0
        return h // q
    return h / q
