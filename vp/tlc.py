"""Run TLC (model checking, simulation, trace validation) and parse what it printed.

Everything here is stdlib-only and is used by every property check.  TLC is always
run under a timeout, with its metadir in a scratch directory, and never leaves
anything in /verif/specs.
"""
import json
import os
import re
import shutil
import subprocess
import tempfile
import time

SPECS = os.path.join(os.path.dirname(os.path.dirname(os.path.abspath(__file__))), "specs")
JAR = "/opt/veriftools/tla/tla2tools.jar:/opt/veriftools/tla/CommunityModules-deps.jar"

_scratch_root = None


class MachineryError(Exception):
    """TLC crashed, a spec does not parse, ... : exit status 2, never a VIOLATION."""


def scratch():
    """One scratch directory per process, outside /repo and /verif; removed by cleanup()."""
    global _scratch_root
    if _scratch_root is None:
        base = os.environ.get("VERIF_SCRATCH") or tempfile.gettempdir()
        os.makedirs(base, exist_ok=True)
        _scratch_root = tempfile.mkdtemp(prefix="vp-", dir=base)
    return _scratch_root


def cleanup():
    global _scratch_root
    if _scratch_root and os.path.isdir(_scratch_root):
        shutil.rmtree(_scratch_root, ignore_errors=True)
    _scratch_root = None


def subdir(name):
    d = os.path.join(scratch(), name)
    os.makedirs(d, exist_ok=True)
    return d


class TLCResult:
    def __init__(self):
        self.rc = None
        self.out = ""
        self.generated = 0
        self.distinct = 0
        self.depth = 0
        self.ok = False  # "No error has been found" / simulation finished cleanly
        self.error = None  # first "Error: ..." line
        self.violated = None  # name of violated invariant / property
        self.prints = []  # parsed PrintT tuples (python lists)
        self.coverage = {}  # action name -> (distinct, total)
        self.wall = 0.0
        self.cmd = ""
        self.timed_out = False

    @property
    def transitions(self):
        return self.generated


_PRINT_RE = re.compile(r'^<<"([A-Z]+)"')


def tla_to_py(text):
    """Parse the subset of TLA+ values our specs print: tuples, strings, ints, booleans,
    records [a |-> 1], sets {..}, and functions (a :> 1 @@ b :> 2)."""
    pos = 0
    n = len(text)

    def ws():
        nonlocal pos
        while pos < n and text[pos] in " \t\r\n":
            pos += 1

    def value():
        nonlocal pos
        ws()
        if text.startswith("<<", pos):
            pos += 2
            items = seq(">>")
            return items
        c = text[pos]
        if c == "{":
            pos += 1
            return {"__set__": seq("}")}
        if c == "[":
            pos += 1
            rec = {}
            ws()
            if text[pos] == "]":
                pos += 1
                return rec
            while True:
                ws()
                m = re.compile(r"[A-Za-z_][A-Za-z0-9_]*").match(text, pos)
                key = m.group(0)
                pos = m.end()
                ws()
                assert text.startswith("|->", pos), text[pos : pos + 20]
                pos += 3
                rec[key] = value()
                ws()
                if text[pos] == ",":
                    pos += 1
                    continue
                assert text[pos] == "]", text[pos : pos + 20]
                pos += 1
                return rec
        if c == "(":
            pos += 1
            fn = {}
            while True:
                k = value()
                ws()
                assert text.startswith(":>", pos), text[pos : pos + 20]
                pos += 2
                v = value()
                fn[k if isinstance(k, (str, int)) else json.dumps(k)] = v
                ws()
                if text.startswith("@@", pos):
                    pos += 2
                    continue
                assert text[pos] == ")", text[pos : pos + 20]
                pos += 1
                return fn
        if c == '"':
            j = pos + 1
            buf = []
            while text[j] != '"':
                if text[j] == "\\":
                    nxt = text[j + 1]
                    buf.append({"n": "\n", "t": "\t", "r": "\r", "f": "\f"}.get(nxt, nxt))
                    j += 2
                else:
                    buf.append(text[j])
                    j += 1
            pos = j + 1
            return "".join(buf)
        m = re.compile(r"-?\d+").match(text, pos)
        if m:
            pos = m.end()
            return int(m.group(0))
        m = re.compile(r"[A-Za-z_][A-Za-z0-9_]*").match(text, pos)
        if m:
            pos = m.end()
            w = m.group(0)
            if w == "TRUE":
                return True
            if w == "FALSE":
                return False
            return w  # model value
        raise ValueError("cannot parse TLA+ value at %r" % text[pos : pos + 40])

    def seq(close):
        nonlocal pos
        items = []
        ws()
        if text.startswith(close, pos):
            pos += len(close)
            return items
        while True:
            items.append(value())
            ws()
            if text[pos] == ",":
                pos += 1
                continue
            assert text.startswith(close, pos), text[pos : pos + 20]
            pos += len(close)
            return items

    v = value()
    return v


def run(
    spec,
    cfg_text,
    *,
    name=None,
    workers=16,
    timeout=600,
    simulate=None,
    depth=None,
    seed=None,
    env=None,
    coverage=False,
    dfs=False,
    deadlock=False,
    extra=(),
    keep_output_lines=True,
    heap="4g",
    module_text=None,
):
    """Run TLC on specs/<spec>.tla with the given cfg text.  Returns TLCResult.

    simulate: None or a string like "num=1000" (adds -simulate num=..), with depth.
    """
    name = name or spec
    d = subdir("tlc-" + re.sub(r"[^A-Za-z0-9_.-]", "_", name))
    cfg = os.path.join(d, name + ".cfg")
    with open(cfg, "w") as f:
        f.write(cfg_text)
    meta = os.path.join(d, "meta")
    shutil.rmtree(meta, ignore_errors=True)
    # (TLC leaves an empty tlc-* directory in java.io.tmpdir per run: keep them in our scratch)
    cmd = ["java", "-XX:+UseParallelGC", "-Xss64m", "-Xmx" + heap, "-DTLA-Library=" + SPECS, "-Djava.io.tmpdir=" + d]
    spec_path = os.path.join(SPECS, spec + ".tla")
    if module_text is not None:
        # a generated root module (constants as definitions) that EXTENDS modules in specs/
        spec_path = os.path.join(d, spec + ".tla")
        with open(spec_path, "w") as f:
            f.write(module_text)
    if dfs:
        cmd.append("-Dtlc2.tool.queue.IStateQueue=StateDeque")
    cmd += ["-cp", JAR, "tlc2.TLC", "-workers", str(workers), "-metadir", meta, "-noGenerateSpecTE"]
    if not deadlock:
        cmd.append("-deadlock")  # -deadlock DISABLES deadlock checking
    if coverage:
        cmd += ["-coverage", "1"]
    if simulate:
        cmd += ["-simulate", simulate]
        if depth:
            cmd += ["-depth", str(depth)]
    if seed is not None:
        cmd += ["-seed", str(seed)]
    cmd += list(extra)
    cmd += ["-config", cfg, spec_path]
    e = dict(os.environ)
    e.pop("JAVA_TOOL_OPTIONS", None)
    if env:
        e.update({k: str(v) for k, v in env.items()})
    res = TLCResult()
    res.cmd = " ".join(cmd)
    t0 = time.time()
    try:
        p = subprocess.run(cmd, cwd=d, env=e, stdout=subprocess.PIPE, stderr=subprocess.STDOUT, timeout=timeout, text=True)
        res.rc = p.returncode
        res.out = p.stdout
    except subprocess.TimeoutExpired as ex:
        res.timed_out = True
        res.out = (ex.stdout or b"").decode() if isinstance(ex.stdout, bytes) else (ex.stdout or "")
        res.rc = -1
    res.wall = time.time() - t0
    _parse(res)
    shutil.rmtree(meta, ignore_errors=True)
    if not keep_output_lines:
        res.out = res.out[-20000:]
    return res


def _parse(res):
    out = res.out
    for m in re.finditer(r"(\d+) states generated, (\d+) distinct states found", out):
        res.generated, res.distinct = int(m.group(1)), int(m.group(2))
    m = re.search(r"The depth of the complete state graph search is (\d+)", out)
    if m:
        res.depth = int(m.group(1))
    res.ok = "No error has been found" in out or (
        "Progress:" in out and "Error:" not in out and res.rc == 0
    )
    m = re.search(r"^Error: (.*)$", out, re.M)
    if m:
        res.error = m.group(1).strip()
        res.ok = False
    m = re.search(r"Invariant (\S+) is violated", out) or re.search(r"Action property (\S+) is violated", out) or re.search(r"Temporal properties were violated", out)
    if m:
        res.violated = m.group(1) if m.groups() else "temporal"
    for line in out.splitlines():
        if line.startswith('<<"') and _PRINT_RE.match(line):
            try:
                res.prints.append(tla_to_py(line))
            except Exception:
                pass
    # coverage: lines like "<Write line 40, col 1 to line 50, col 30 of module X>: 12:345"
    for m in re.finditer(r"^<(\w+) line \d+, col \d+ to line \d+, col \d+ of module (\w+)>: (\d+):(\d+)", out, re.M):
        a = m.group(1)
        d0, t0 = res.coverage.get(a, (0, 0))
        res.coverage[a] = (d0 + int(m.group(3)), t0 + int(m.group(4)))


def require_ok(res, what):
    """A model-checking run that is supposed to pass on the *specification*: anything
    else (parse error, crash, timeout) is a machinery failure, not a verdict on the code."""
    if res.timed_out:
        raise MachineryError("%s: TLC timed out after %.0fs" % (what, res.wall))
    if not res.ok and not res.violated:
        raise MachineryError("%s: TLC failed: %s\n%s" % (what, res.error, res.out[-3000:]))
    return res


def counterexample(res):
    """Extract the error trace states (as raw text blocks) from TLC output."""
    blocks = re.split(r"^State \d+: ", res.out, flags=re.M)[1:]
    return [b.strip() for b in blocks]


def simulate_paths(spec, cfg_text, module_text, *, num, depth, seed, timeout=900, name=None):
    """TLC -simulate as a generator of behaviours: the MC module carries a history variable
    and a CONSTRAINT that prints <<"PATH", json>> once the history has `depth` steps."""
    res = run(spec, cfg_text, module_text=module_text, name=name or spec, workers=1, timeout=timeout, simulate="num=%d" % num, depth=depth + 1, seed=seed)
    if res.timed_out or res.error:
        raise MachineryError("simulation of %s failed: %s\n%s" % (spec, res.error or "timeout", res.out[-3000:]))
    return [json.loads(p[1]) for p in res.prints if p[0] == "PATH"], res
