"""Batch validation of traces recorded from the real code against a <Spec>Trace.tla module.

Convention shared by all trace modules (see specs/StandardiserTrace.tla):
  * TRACE_FILE names a JSON array of traces; variable tid picks one, l is the cursor;
  * the successor state of each step is the OBSERVED state; the module evaluates every
    property formula on it and prints  <<"PV", tid, eventIndex, "Formula">>  when one fails;
  * it prints <<"NC", tid, eventIndex, action>> at the first step that the specification's
    own action does not allow (not-a-behaviour), and <<"END", tid, n, nc>> when the
    whole trace was consumed.  A trace without END line stalled: a malformed event, which
    is a machinery failure, not a verdict.
"""
import json
import os

from . import tlc


class TraceVerdict:
    __slots__ = ("end", "consumed", "nc", "pv", "info")

    def __init__(self):
        self.end = False
        self.consumed = 0
        self.nc = None  # (event index, action) of first non-conforming step
        self.pv = []  # [(event index, formula name)]
        self.info = []

    @property
    def accepted(self):
        return self.end and self.nc is None and not self.pv


def validate(trace_spec, traces, constants_cfg="", *, name=None, timeout=900, chunk=None, extra_cfg="", parallel=12, dfs=False, module_text=None, root=None):
    """Returns (list of TraceVerdict aligned with traces, total states).  The batch is split
    into chunks validated by concurrent single-worker TLC processes."""
    from concurrent.futures import ThreadPoolExecutor

    verdicts = [TraceVerdict() for _ in traces]
    if not traces:
        return verdicts, 0
    if chunk is None:
        chunk = max(50, min(3000, -(-len(traces) // parallel)))
    starts = list(range(0, len(traces), chunk))
    cfg = "SPECIFICATION TraceSpec\n"
    if constants_cfg:
        cfg += "CONSTANTS\n" + constants_cfg + "\n"
    cfg += "CONSTRAINT Monitor\nACTION_CONSTRAINT NCMonitor\n" + extra_cfg
    d = tlc.subdir("traces-" + (name or trace_spec))

    def one(start):
        part = traces[start : start + chunk]
        path = os.path.join(d, "traces-%d.json" % start)
        with open(path, "w") as f:
            json.dump(part, f)
        res = tlc.run(root or trace_spec, cfg, name=(name or trace_spec) + "-%d" % start, workers=1, timeout=timeout, env={"TRACE_FILE": path}, heap="3g", dfs=dfs, module_text=module_text)
        os.unlink(path)
        return start, res

    states = 0
    with ThreadPoolExecutor(max_workers=parallel) as ex:
        results = list(ex.map(one, starts))
    for start, res in results:
        if res.timed_out or not res.ok:
            at = res.out.find("Error:")
            raise tlc.MachineryError("trace validation with %s failed (%s)\n%s\n...\n%s" % (trace_spec, res.error or "timeout", res.out[max(0, at - 200): at + 1800], res.out[-1200:]))
        states += res.distinct
        for p in res.prints:
            tag = p[0]
            if tag not in ("PV", "NC", "END", "INFO"):
                continue
            v = verdicts[start + p[1] - 1]
            if tag == "PV":
                v.pv.append((p[2], p[3]))
            elif tag == "NC":
                if v.nc is None or p[2] < v.nc[0]:
                    v.nc = (p[2], p[3])
            elif tag == "END":
                v.end = True
                v.consumed = p[2]
                # several END lines (branching trace specs): conforming if any branch conforms
                v.info.append(("end_nc", p[3]))
            elif tag == "INFO":
                v.info.append(tuple(p[2:]))
    stalled = [i for i, v in enumerate(verdicts) if not v.end]
    if stalled:
        tails = [res.out[-1500:] for _, res in results if "rror" in res.out[-4000:]][:1]
        raise tlc.MachineryError("%d trace(s) were not consumed to the end by %s (malformed event?), first: %s\n%s" % (len(stalled), trace_spec, json.dumps(traces[stalled[0]])[:1500], "\n".join(tails)))
    return verdicts, states
