"""Implementation behind the guarded hooks in cobald.daemon.runners (`_verif.point`).

A point() call does three things, all optional and all off by default:
  * record: append {seq, thread, name, fields} to the global trace (one lock, one counter:
    the recorded order IS an order in which the events happened);
  * jitter: sleep a seeded pseudo-random 0..max seconds (and/or yield the GIL) so that free
    runs explore different interleavings of the instrumented critical sections;
  * park: block the calling thread at a named point until the driver releases it (used to
    force a thread to sit inside a window, e.g. between the runner lookup and the queue
    append of a registration while the runtime starts).
The harness's own payloads and drivers use emit() to log their events into the same sequence.
"""
import itertools
import random
import threading
import time

_lock = threading.Lock()
_seq = itertools.count(1)
EVENTS = []
recording = False
_jitter = None  # (random.Random, max_seconds)
_parks = {}  # point name -> dict(arrived=Event, release=Event, left=int)
_names = {}


def thread_tag():
    t = threading.current_thread()
    return _names.get(t.ident) or t.name


def name_thread(tag):
    _names[threading.get_ident()] = tag


def reset(record=True, jitter_seed=None, jitter_max=0.0):
    global recording, _jitter
    with _lock:
        del EVENTS[:]
        _parks.clear()
    recording = record
    _jitter = (random.Random(jitter_seed), jitter_max) if jitter_seed is not None and jitter_max > 0 else None


def emit(name, **fields):
    """Record one event; returns its sequence number."""
    if not recording:
        return 0
    with _lock:
        n = next(_seq)
        ev = {"seq": n, "th": thread_tag(), "tid": threading.get_ident(), "e": name}
        ev.update(fields)
        EVENTS.append(ev)
    return n


def park_at(name, count=1):
    """Arrange for the next `count` arrivals at point `name` to block until release(name)."""
    p = {"arrived": threading.Event(), "release": threading.Event(), "left": count}
    _parks[name] = p
    return p


def wait_arrival(name, timeout=5.0):
    p = _parks.get(name)
    return bool(p and p["arrived"].wait(timeout))


def release(name):
    p = _parks.get(name)
    if p:
        p["release"].set()


def point(name, **fields):
    emit(name, **fields)
    p = _parks.get(name)
    if p is not None and p["left"] > 0:
        with _lock:
            take = p["left"] > 0
            if take:
                p["left"] -= 1
        if take:
            p["arrived"].set()
            p["release"].wait(10.0)
            return None
    j = _jitter
    if j is not None:
        with _lock:
            r = j[0].random()
        if r < 0.35:
            time.sleep(r * j[1])
        elif r < 0.6:
            time.sleep(0)
    return None


def snapshot():
    with _lock:
        return list(EVENTS)
