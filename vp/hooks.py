"""Implementation behind the guarded hooks in cobald.daemon.runners (`_verif.point`).

A point() call does three things, all optional and all off by default:
  * record: append {seq, thread, name, fields} to the global trace (one lock, one counter:
    the recorded order IS an order in which the events happened);
  * jitter: sleep a seeded pseudo-random 0..max seconds (and/or yield the GIL) so that free
    runs explore different interleavings of the instrumented critical sections;
  * park: block the calling thread at a named point until the driver releases it (used to
    force a thread to sit inside a window, e.g. between the runner lookup and the queue
    append of a registration while the runtime starts).
The harness's own payloads and drivers use emit() to log their events into the same sequence.
"""
import itertools
import random
import threading
import time

_lock = threading.Lock()
_seq = itertools.count(1)
EVENTS = []
recording = False
_jitter = None  # (random.Random, max_seconds)
_parks = {}  # point name -> dict(arrived=Event, release=Event, left=int)
_names = {}
_polls = 0
_gate = None  # Gate: the hook-granular scheduler used by vp/rt/regsched.py


def thread_tag():
    t = threading.current_thread()
    return _names.get(t.ident) or t.name


def name_thread(tag):
    _names[threading.get_ident()] = tag


def reset(record=True, jitter_seed=None, jitter_max=0.0):
    global recording, _jitter, _polls
    _polls = 0
    with _lock:
        del EVENTS[:]
        _parks.clear()
    recording = record
    _jitter = (random.Random(jitter_seed), jitter_max) if jitter_seed is not None and jitter_max > 0 else None


def emit(name, **fields):
    """Record one event; returns its sequence number."""
    if not recording:
        return 0
    if name == "sr.svc.poll":
        # a service loop that spins (no delay, no checkpoint) would flood the trace: the first
        # few thousand polls are all anybody needs
        global _polls
        _polls += 1
        if _polls > 5000:
            return 0
    with _lock:
        n = next(_seq)
        ev = {"seq": n, "th": thread_tag(), "tid": threading.get_ident(), "e": name}
        ev.update(fields)
        EVENTS.append(ev)
    return n


def park_at(name, count=1):
    """Arrange for the next `count` arrivals at point `name` to block until release(name)."""
    p = {"arrived": threading.Event(), "release": threading.Event(), "left": count}
    _parks[name] = p
    return p


def wait_arrival(name, timeout=5.0):
    p = _parks.get(name)
    return bool(p and p["arrived"].wait(timeout))


def release(name):
    p = _parks.get(name)
    if p:
        p["release"].set()


class Gate:
    """Hook-granular scheduler: a thread whose tag is in `names_by_tag` stops at every listed
    point, tells the controller where it is, and runs on only when the controller says so -
    so exactly one controlled thread runs between two gate points."""

    def __init__(self, names_by_tag):
        import queue

        self.names_by_tag = names_by_tag
        self._queue = queue
        self.arrivals = {}  # tag -> Queue of (name, fields): a thread may arrive unprompted
        self.events = {}
        self.open = False
        self._lock = threading.Lock()

    def _q(self, tag):
        with self._lock:
            if tag not in self.arrivals:
                self.arrivals[tag] = self._queue.Queue()
            return self.arrivals[tag]

    def post(self, tag, name, fields):
        self._q(tag).put((name, fields))

    def wait(self, tag, timeout):
        """-> (name, fields) of the next arrival of that thread; raises queue.Empty"""
        return self._q(tag).get(timeout=timeout)

    def arrive(self, tag, name, fields):
        ev = threading.Event()
        self.events[tag] = ev
        self.post(tag, name, fields)
        if not self.open:
            ev.wait(20.0)

    def go(self, tag):
        ev = self.events.pop(tag, None)
        if ev is not None:
            ev.set()

    def open_all(self):
        self.open = True
        for ev in list(self.events.values()):
            ev.set()


def gate_on(names_by_tag):
    global _gate
    _gate = Gate(names_by_tag)
    return _gate


def gate_off():
    global _gate
    g, _gate = _gate, None
    if g is not None:
        g.open_all()


def point(name, **fields):
    emit(name, **fields)
    g = _gate
    if g is not None and not g.open:
        tag = thread_tag()
        if name in g.names_by_tag.get(tag, ()):
            g.arrive(tag, name, fields)
            return None
    p = _parks.get(name)
    if p is not None and p["left"] > 0:
        with _lock:
            take = p["left"] > 0
            if take:
                p["left"] -= 1
        if take:
            p["arrived"].set()
            p["release"].wait(10.0)
            return None
    j = _jitter
    if j is not None:
        with _lock:
            r = j[0].random()
        if r < 0.35:
            time.sleep(r * j[1])
        elif r < 0.6:
            time.sleep(0)
    return None


def snapshot():
    with _lock:
        return list(EVENTS)
