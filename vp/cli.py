"""./check <Cxx> [--tier quick|thorough] [--replay path]"""
import importlib
import sys

from . import core


def main(argv=None):
    argv = list(sys.argv[1:] if argv is None else argv)
    if not argv or argv[0].startswith("-"):
        print("usage: check <property id> [--tier quick|thorough] [--replay path]", file=sys.stderr)
        return 2
    prop = argv.pop(0).upper()
    try:
        mod = importlib.import_module("vp.props." + prop.lower())
    except ModuleNotFoundError:
        print("no check for property %s" % prop, file=sys.stderr)
        return 2
    return core.main(prop, mod, argv)


if __name__ == "__main__":
    sys.exit(main())
