"""Fixture plugins registered as YAML tags through fixture_dist/vpfix-0.dist-info (C05, C13, C18)."""
import copy

from cobald.interfaces import Pool, PoolDecorator, Controller
from cobald.daemon.plugins import yaml_tag

LOG = []  # construction log: (kind, ident, args, kwargs)
_count = [0]


def _next():
    _count[0] += 1
    return _count[0]


def reset():
    del LOG[:]
    _count[0] = 0


class VPool(Pool):
    supply, demand, utilisation, allocation = 0, 0, 1.0, 1.0

    def __init__(self, *args, **kwargs):
        self.ident = _next()
        self.args, self.kwargs = args, kwargs
        if kwargs.get("fail") or "fail" in args:
            LOG.append(("VPool-failed", self.ident, args, kwargs))
            raise ValueError("VPool told to fail")
        LOG.append(("VPool", self.ident, args, kwargs))


class VDeco(PoolDecorator):
    def __init__(self, target, *args, **kwargs):
        super().__init__(target)
        self.ident = _next()
        self.args, self.kwargs = args, kwargs
        if kwargs.get("fail") or "fail" in args:
            LOG.append(("VDeco-failed", self.ident, args, kwargs))
            raise ValueError("VDeco told to fail")
        LOG.append(("VDeco", self.ident, args, kwargs))


class VCtrl(Controller):
    def __init__(self, target, *args, **kwargs):
        super().__init__(target)
        self.ident = _next()
        self.args, self.kwargs = args, kwargs
        if kwargs.get("fail") or "fail" in args:
            LOG.append(("VCtrl-failed", self.ident, args, kwargs))
            raise ValueError("VCtrl told to fail")
        LOG.append(("VCtrl", self.ident, args, kwargs))


class VFail(Controller):
    """A template whose construction always fails (at bind time)"""

    def __init__(self, target, *args, **kwargs):
        LOG.append(("VFail-failed", _next(), args, kwargs))
        raise KeyError("VFail always fails")


@yaml_tag(eager=True)
def v_eager(*args, **kwargs):
    """records a deep copy of what it receives AT CALL TIME (eager: everything is there)"""
    LOG.append(("VEager", _next(), copy.deepcopy(args), copy.deepcopy(kwargs)))
    return ("eager", copy.deepcopy(args), copy.deepcopy(kwargs))


def v_lazy(*args, **kwargs):
    LOG.append(("VLazy", _next(), copy.deepcopy(args), copy.deepcopy(kwargs)))
    return ("lazy", args, kwargs)
