"""Fixture plugins registered as YAML tags through fixture_dist/vpfix-0.dist-info (C05, C13, C18)."""
import copy

from cobald.interfaces import Pool, PoolDecorator, Controller
from cobald.daemon.plugins import yaml_tag

LOG = []  # construction log: (kind, ident, args, kwargs)
_count = [0]


def _next():
    _count[0] += 1
    return _count[0]


def reset():
    del LOG[:]
    del TOKS[:]
    _count[0] = 0


class VPool(Pool):
    supply, demand, utilisation, allocation = 0, 0, 1.0, 1.0

    def __init__(self, *args, **kwargs):
        self.ident = _next()
        self.args, self.kwargs = args, kwargs
        if kwargs.get("fail") or "fail" in args:
            LOG.append(("VPool-failed", self.ident, args, kwargs))
            raise ValueError("VPool told to fail")
        LOG.append(("VPool", self.ident, args, kwargs))


class VDeco(PoolDecorator):
    def __init__(self, target, *args, **kwargs):
        super().__init__(target)
        self.ident = _next()
        self.args, self.kwargs = args, kwargs
        if kwargs.get("fail") or "fail" in args:
            LOG.append(("VDeco-failed", self.ident, args, kwargs))
            raise ValueError("VDeco told to fail")
        LOG.append(("VDeco", self.ident, args, kwargs))


class VCtrl(Controller):
    def __init__(self, target, *args, **kwargs):
        super().__init__(target)
        self.ident = _next()
        self.args, self.kwargs = args, kwargs
        if kwargs.get("fail") or "fail" in args:
            LOG.append(("VCtrl-failed", self.ident, args, kwargs))
            raise ValueError("VCtrl told to fail")
        LOG.append(("VCtrl", self.ident, args, kwargs))


class VFail(Controller):
    """A template whose construction always fails (at bind time)"""

    def __init__(self, target, *args, **kwargs):
        LOG.append(("VFail-failed", _next(), args, kwargs))
        raise KeyError("VFail always fails")


@yaml_tag(eager=True)
def v_eager(*args, **kwargs):
    """records a deep copy of what it receives AT CALL TIME (eager: everything is there)"""
    LOG.append(("VEager", _next(), copy.deepcopy(args), copy.deepcopy(kwargs)))
    return ("eager", copy.deepcopy(args), copy.deepcopy(kwargs))


class Tok(object):
    """what the !VTok tag makes: a fresh object per occurrence of the tag (equal only to itself)"""

    def __init__(self, ident):
        self.ident = ident


TOKS = []  # every Tok made since reset()


def v_tok(*args, **kwargs):
    t = Tok(_next())
    TOKS.append(t)
    LOG.append(("VTok", t.ident, args, kwargs))
    return t


def v_lazy(*args, **kwargs):
    LOG.append(("VLazy", _next(), copy.deepcopy(args), copy.deepcopy(kwargs)))
    return ("lazy", args, kwargs)


# position-specific classes VPool<i>, VDeco<i>, VCtrl<i>, VFail<i> (PEP 562): the construction log
# then says WHICH element of a pipeline was constructed even when it has no arguments
_cache = {}


def __getattr__(name):
    for prefix, base in (("VPool", VPool), ("VDeco", VDeco), ("VCtrl", VCtrl), ("VFail", VFail)):
        if name.startswith(prefix) and name[len(prefix):].isdigit():
            if name not in _cache:
                pos = int(name[len(prefix):])
                kind = prefix

                if base is VFail:
                    def __init__(self, target, *args, _pos=pos, **kwargs):
                        LOG.append(("VFail-failed", _pos, args, kwargs))
                        raise KeyError("VFail%d always fails" % _pos)
                elif base is VPool:
                    def __init__(self, *args, _pos=pos, _kind=kind, **kwargs):
                        self.pos, self.args, self.kwargs, self.target = _pos, args, kwargs, None
                        if kwargs.get("fail"):
                            LOG.append((_kind + "-failed", _pos, args, kwargs))
                            raise ValueError("told to fail")
                        LOG.append((_kind, _pos, args, kwargs))
                else:
                    def __init__(self, target, *args, _pos=pos, _kind=kind, **kwargs):
                        self.target = target
                        self.pos, self.args, self.kwargs = _pos, args, kwargs
                        if kwargs.get("fail"):
                            LOG.append((_kind + "-failed", _pos, args, kwargs))
                            raise ValueError("told to fail")
                        LOG.append((_kind, _pos, args, kwargs))
                # (an element may be falsy - an empty group pool, say - if it is told so)
                _cache[name] = type(name, (base,), {"__init__": __init__, "pos": pos, "__bool__": lambda self: not self.kwargs.get("falsy", False)})
            return _cache[name]
    raise AttributeError(name)


class _NsMeta(type):
    def __getattr__(cls, name):
        return __getattr__(name)


class Ns(metaclass=_NsMeta):
    """a namespace class: ``__type__`` may name an object nested in a class
    (``vp.fx_plugins.Ns.VPool3``), not only a module attribute"""
