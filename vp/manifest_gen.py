"""Regenerates MANIFEST.json from the table below (python -m vp.manifest_gen)."""
import json
import os

ROOT = os.path.dirname(os.path.dirname(os.path.abspath(__file__)))

ALL = ["C%02d" % i for i in range(1, 20)]

CHECKS = {
    "C13": {
        "spec": "specs/Daemon.tla + DaemonTrace.tla",
        "text": "Daemon.tla models the process: boot, loading the configuration inside the running loop (elements constructed last to first), fatal load errors, the service loop starting every service once, heartbeats, a failing service, SIGINT with cancellation of the coroutine services, exit codes. TLC checks ExactlyOnce, ConstructedInRunningLoop, SigintGraceful, ErrorsExitNonZero and ExitZeroOnlyAfterSigint on the model and emits every case (YAML with !Tag/__type__ elements and optional logging section, Python module with >>, unknown extension; seven kinds of configuration error; head service flavour; plain or service middle element; which service fails; SIGINT); each case is rendered to a file and run as a real `python -m cobald.daemon` process whose fixture elements write an event file; events, exit status and the runtime log are validated by TLC, including NeverIdle (a process that should have exited but is still up).",
        "note": "bounded real-time observation (two heartbeats per service before SIGINT; 10 s limit); fixture pipeline elements; the error must be written by the logging system (log target or logging section), stderr does not count.",
        "design": "5/C13, 4.2",
        "technique": "TLA+ model checking (TLC) + TLC-enumerated configurations run as real daemon processes + trace validation",
    },
    "C03": {
        "spec": "specs/Runtime.tla + RuntimeTrace.tla",
        "text": 'Same specification and pipeline as C01 for AtMostOnce, AdoptReturnsNone, ExactlyOnce (liveness on the model, observed at quiescence), RightFlavour and ArgsExact: flavour assignments of three payloads with argument tuples/dicts, one queued before start and two adopted afterwards from a thread or from inside payloads of each flavour, 0..2 services (one falsy) created before/after start from any context, optional racing shutdown; targeted scripts adopt every flavour while the runtime is closing (several delays) and let several threads queue the first pre-start payloads at the same instant.',
        "note": "as C01; callers wait for `running` before adopting (a submission overlapping accept()'s own start-up is outside the claim, DESIGN 7.4); thread/loop identity and argument equality are recorded by the payloads. The registration / closing / stopping kernels (Registration.tla, Closing.tla, Stopping.tla) are model-checked for two or three submitters, bound to the code by forced schedules, and their safety invariants are additionally proved with TLAPS for any number of submitters (specs/proofs, reported in the evidence; a proof run that times out is reported, not fatal).",
        "design": "5/C03, 4.1",
        "technique": 'TLA+ model checking (TLC, safety + liveness) of the runtime protocol + TLC-simulated behaviours forced onto the real runtime + trace validation',
    },
    "C10": {
        "spec": "specs/Runtime.tla + RuntimeTrace.tla",
        "text": 'Same specification and pipeline as C01 for the execute formulas ExecOnce, ExecArgsExact, ExecOutcomeIdentity, ExecRightFlavour, ExecNotAFailure and ExecReturns: executed flavour x calling context (outside thread, thread payload, coroutine payload of another flavour) x outcomes (None, falsy/truthy values, Exception subclasses) x arguments, sequences of calls interleaved with adopted bystanders which must still answer afterwards.',
        "note": "as C01; no two blocking executes waiting on each other's loop thread (DESIGN 7.5); outcome identity is tested with `is` in the harness.",
        "design": "5/C10, 4.1",
        "technique": 'TLA+ model checking (TLC, safety + liveness) of the runtime protocol + TLC-simulated behaviours forced onto the real runtime + trace validation',
    },
    "C11": {
        "spec": "specs/Runtime.tla + RuntimeTrace.tla",
        "text": 'Same specification and pipeline as C01 for RightFlavour / ExecRightFlavour (one loop, one thread per coroutine flavour for adopted, service and executed payloads; thread payloads elsewhere), NoOverlap (enter/exit events of synchronous sections commanded to several payloads of a flavour at once) and BlockingDoesNotStall; targeted scripts execute coroutine payloads from a thread payload while the runtime is closing and block 36 thread payloads adopted from inside a coroutine payload.',
        "note": 'as C01; overlap and identity are observations recorded by the payloads into the global event sequence; a 1 s unanswered command while threads block counts as a stall.',
        "design": "5/C11, 4.1",
        "technique": 'TLA+ model checking (TLC, safety + liveness) of the runtime protocol + TLC-simulated behaviours forced onto the real runtime + trace validation',
    },
    "C12": {
        "spec": "specs/Runtime.tla + RuntimeTrace.tla",
        "text": 'Runtime.tla with three runners competing for the accept guard: AtMostOneAccepting, GuardReleasedOnEveryExit, SecondAcceptRejectedCleanly, ShutdownReturns (liveness), StopReturnsNormally, RestartPossible. Shapes = how runner 1 ends (shutdown from a thread / SIGINT / failing payload) x payload population at that time, with a concurrent accept placed by TLC anywhere and always a restart by another runner afterwards; targeted scripts park the service loop at its first instant while shutdown() is issued, and try several rejected accepts in a row.',
        "note": 'as C01; finitely many adoptions after shutdown() begins; one process per history.',
        "design": "5/C12, 4.1",
        "technique": 'TLA+ model checking (TLC, safety + liveness) of the runtime protocol + TLC-simulated behaviours forced onto the real runtime + trace validation',
    },

    "C01": {
        "spec": "specs/Runtime.tla + RuntimeTrace.tla",
        "text": "Runtime.tla models the daemon runtime's observable protocol (API calls and returns, payload life cycles of all three flavours, phase changes, failure / interrupt / shutdown triggers, the accept guard); one action per observable event, all interleavings. Per scenario shape (failing flavour x failure kind x registration time x bystander population) TLC checks FailStopSafe, CauseFaithful and the liveness property FailStopLive on the model, then generates behaviours by simulation; the driver forces each behaviour's controllable actions onto a real ServiceRunner with gated payloads (the runtime's own steps run freely, perturbed by seeded jitter at the guarded hooks) and TLC validates the recorded trace: every formula on the observed state, every event against the specification's action.",
        "note": "protocol-level model (asyncio/trio internals trusted); scenarios without a concurrent stop request; liveness observed at a quiescence marker after a 4 s wait; Python 3.12 / trio 0.34.",
        "design": "5/C01, 4.1",
        "technique": "TLA+ model checking (TLC, safety + liveness) of the runtime protocol + TLC-simulated behaviours forced onto the real runtime + trace validation",
    },
    "C02": {
        "spec": "specs/Runtime.tla + RuntimeTrace.tla",
        "text": "Same specification and pipeline as C01, for the termination formulas CleanupBeforeEnd, NoStepAfterEnd and ThreadsDoNotBlockEnd: shapes are termination triggers (failure of each flavour and kind, SIGINT, shutdown()) x populations of running coroutine payloads (sleeping / spinning, synchronous and shielded cleanup of 0..2 steps, adopted from threads or other payloads) x a blocked thread payload, plus targeted scripts for every failure kind and for payloads adopted while the runtime is already closing. 'Before the call returns' is an ordering fact of the single global event sequence, not a timestamp comparison.",
        "note": "as C01; generated payloads have finite cleanup; one known finding (F12: SystemExit raised by a payload).",
        "design": "5/C02, 4.1",
        "technique": "TLA+ model checking (TLC, safety + liveness) of the runtime protocol + TLC-simulated behaviours forced onto the real runtime + trace validation",
    },
    "C05": {
        "spec": "specs/YamlPipeline.tla + YamlPipelineTrace.tla",
        "text": "YamlPipeline.tla models the two phases of loading a pipeline section (tags become templates in document order; the PipelineTranslator constructs last to first, passing the previous object as target; one step per constructor call). TLC checks Linked / OnceLastToFirst / NoPartial / StopsAtFailure for all pipelines of length 1..4 (thorough 6) x four syntactic forms per position x failing position and emits every case; each is rendered to YAML twice (seeded argument shapes incl. nested lazy/eager tags, head kind, failure kind), loaded by the real load() with fixture plugins from a fixture dist-info, and the constructor calls, received arguments and returned list (identity of target vs next element) are validated by TLC.",
        "note": "constructor failures at bind time only (ValueError / KeyError); __type__ elements with keyword items only (as the property says); fixture classes per position.",
        "design": "5/C05, 4.4",
        "technique": "TLA+ model checking (TLC) + TLC-enumerated configurations rendered to YAML and loaded by the real code + trace validation",
    },
    "C04": {
        "spec": "specs/Chain.tla + ChainTrace.tla, specs/Binding.tla + BindingTrace.tla",
        "text": "Chain.tla is an evaluation machine for >> expressions (Partial / PartialBind clause by clause, Python's operand order); TLC checks Associative and OnceLastToFirst for every parenthesisation of 2..6 (thorough 7) elements x three tail forms and emits every expression; each is built as a real Python expression over recording classes (3 random splits of the arguments over curry calls; plus random expressions of 7..10 elements) and the resulting object graph, construction log and received arguments are validated by TLC. Binding.tla states Python's partial call binding as a predicate over signatures and argument supplies; TLC enumerates 48 signatures x supplies x {plain, @service} classes, the real templates are created and curried, and TLC compares each call's outcome with ShouldReject.",
        "note": "controllers only at the head of a chain; signatures without positional-only parameters; for Binding.tla TLC is the enumerator and the evaluator of the oracle on observed outcomes (the model itself has no independent property); one known finding (F7: the check is vacuous for @service classes).",
        "design": "5/C04, 4.3",
        "technique": "TLA+ model checking (TLC) of the >> evaluation machine + TLC-enumerated expressions and signatures executed on the real templates + trace validation",
    },
    "C18": {
        "spec": "specs/YamlSafety.tla + YamlSafetyTrace.tla",
        "text": "YamlSafety.tla abstracts a document to the sequence of its tagged nodes and the loader to the set of non-plugin tag kinds its class has constructors for; that set is probed from the real COBalDLoader at check time, so a loader that is not a SafeLoader makes the model itself violate OnlyRegistered. TLC checks OnlyRegistered / BadIsRejected over all enumerated documents (19 tag kinds x named targets x 11 positions x argument shapes; thorough: two bad nodes) and emits them; each is rendered to YAML and loaded by the real load() in sub-processes armed with canaries (recording callable / class, import hook, marker file, patched plugin class); what fired and the outcome are validated by TLC.",
        "note": "side effects are only visible through the canaries; positions and tag kinds are the enumerated ones; one known finding (tag on a merge-key value is ignored, not rejected - harmless).",
        "design": "5/C18, 4.14",
        "technique": "TLA+ model checking (TLC) with the loader's constructor table probed from the real class + TLC-enumerated documents loaded by the real code under canaries + trace validation",
    },
    "C17": {
        "spec": "specs/LineProtocol.tla + LineProtocolTrace.tla, specs/JsonMerge.tla + JsonMergeTrace.tla",
        "text": "LineProtocol.tla contains a transcription of the encoder and an independent reference decoder written from the InfluxDB grammar; TLC enumerates records over an 8-class alphabet (every character special to the protocol) in every string position, all value kinds, whitelist/default/override configurations and time/resolution pairs, checks Parse(Format(r)) = r on the model and emits every record; each record (and random longer ones) is formatted by the real LineProtocolFormatter through a LogRecord (every second time after an earlier record on the same formatter) and TLC applies the reference decoder to the observed text. JsonMerge.tla does the same for the JSON formatter's merge order over colliding key sets.",
        "note": "character classes instead of all of Unicode; strings <= 3 (thorough 4) exhaustively per position, <= 8 at random; numbers compared by value; nanoseconds checked as seconds + nine zeros; inputs the protocol cannot express are excluded as the property says.",
        "design": "5/C17, 4.13",
        "technique": "TLA+ model checking (TLC) with a reference decoder in the spec + TLC-enumerated inputs formatted by the real code + trace validation",
    },
    "C16": {
        "spec": "specs/Decorators.tla + DecoratorsTrace.tla",
        "text": "Decorators.tla models a stack of PoolDecorator / Logger / Standardiser / Buffer layers: a demand write travels top-down (each Logger reads its target, emits one record, forwards), reads have the Standardiser's resynchronisation side effect. TLC checks transparency and record formulas over all stacks of depth <= 3 (thorough 4) and all histories to a bounded depth, generates behaviours by simulation, and validates traces of real stacks with capturing handlers (record fields at emission, target state before the write, fields re-read after the write, logger name and level, pool write counts, template validation).",
        "note": "Standardiser layers with default parameters, Buffer layers not running; integer demands, fitness in quarters.",
        "design": "5/C16, 4.12",
        "technique": "TLA+ model checking (TLC) + TLC-simulated behaviours replayed on real decorator stacks + trace validation",
    },
    "C09": {
        "spec": "specs/Periodic.tla (EXTENDS Controllers.tla) + PeriodicTrace.tla",
        "text": "Periodic.tla models the six shipped services under a discrete clock (eighths of a second): wake-ups, environment actions before / on / after period boundaries in either order at equal instants. TLC checks OncePerInterval, NeverRaises, LinearDrift, the two Buffer formulas and FactoryAdjusts (plus C08's step formulas) on the model, generates timed behaviours by simulation, and validates traces recorded from the real run() methods under trio's MockClock, where every iteration is observed through its time-stamped accesses to the recording pool.",
        "note": "virtual time only; instants are multiples of 1/8 s, runs up to ~4 s; an unobserved wake-up is accepted only where it had nothing to do (Buffer/FactoryPool) - see DESIGN; FactoryPool timing is checked with unit-demand children (C15 covers its semantics).",
        "design": "5/C09, 4.10",
        "technique": "TLA+ model checking (TLC) of a timed model + TLC-simulated timed behaviours replayed under a virtual clock + trace validation",
    },
    "C15": {
        "spec": "specs/Factory.tla + FactoryTrace.tla",
        "text": "TLC checks the nine formulas of C15 on Factory.tla over all histories (demand writes, child supply/utilisation changes, children disabling themselves, mortuary collection, adjustment cycles) to a bounded depth, with the shrink order free within the sort key's ties; TLC -simulate generates behaviours (three factories) that are replayed on a real FactoryPool whose run() is stepped one interval at a time under a virtual clock, plus random histories driven against the live pool; every trace is validated by TLC (an adjustment conforms if some tie order explains it).",
        "note": "<= 6 children per history, small integer demands/supplies; hatchery/mortuary membership read from private attributes; released children never raise their demand again.",
        "design": "5/C15, 4.11",
        "technique": "TLA+ model checking (TLC) + TLC-simulated behaviours replayed on the real FactoryPool + trace validation",
    },
    "C07": {
        "spec": "specs/Composite.tla + CompositeTrace.tla",
        "text": "TLC checks the seven formulas of C07 on Composite.tla for the uniform and the three weighted composites over all histories (writes, reads, child state changes, children added/removed) to a bounded depth, with exact rational shares (scaled by lcm(1..16)); TLC -simulate generates behaviours of depth 14 that are replayed on real UniformComposite/WeightedComposite objects over recording children, together with random histories; every trace is validated by TLC on the observed shares and aggregates.",
        "note": "supply in whole units, fitness in quarters, <= 4 children with independent attributes; observed floats must be within 1e-9 relative of the exact rational; tiny/huge magnitudes not explored.",
        "design": "5/C07, 4.8",
        "technique": "TLA+ model checking (TLC) + TLC-simulated behaviours replayed on the real composites + trace validation",
    },
    "C08": {
        "spec": "specs/Controllers.tla + ControllersTrace.tla",
        "text": "Per controller kind (Linear, RelativeSupply, Stepwise, DemandSwitch) TLC checks the eleven formulas of C08 exhaustively over all pool states of the grid (fitness exactly on, below and above the thresholds) for families of parameters and of rule / slave tables in every declaration order; the state graph of a smaller family is emitted and an edge cover of it, plus random multi-step histories with pool changes between steps, is executed on the real controllers (regulate(), or Stepwise.run stepped under trio's MockClock) with recording rules / slaves; every trace is validated by TLC.",
        "note": "1/16 grid for supply/demand, 1/4 grid for fitness, thresholds, scales, rate, interval; distinct thresholds; supply >= 0; slaves of the DemandSwitch are LinearControllers.",
        "design": "5/C08, 4.9",
        "technique": "TLA+ model checking (TLC) + edge-cover replay of the TLC state graph on the real controllers + trace validation",
    },
    "C19": {
        "spec": "specs/Translate.tla + TranslateTrace.tla",
        "text": "TLC enumerates configuration trees (scalars, lists, mappings, typed mappings with working / raising / unresolvable factories, __args__ before or after the keyword items) to depth 2 (thorough: children from the full one-level family), checks the eight formulas of C19 on Translate.tla, and emits every tree; each tree (plus random trees to depth 5) is rendered with individually distinguishable fixture factories and translated by the real Translator, every second one twice from the same object; recorded factory calls, result and tokenised where-path are validated by TLC.",
        "note": "finite acyclic trees without shared sub-objects; factories are fixture callables reached through generated dotted names; exceptions that are not Exception subclasses are out of scope.",
        "design": "5/C19, 4.6",
        "technique": "TLA+ model checking (TLC) + TLC-enumerated inputs executed on the real translator + trace validation",
    },
    "C14": {
        "spec": "specs/Sections.tla + SectionsTrace.tla",
        "text": "TLC enumerates scenarios (installed plugins, before/after constraints incl. names of absent plugins, required flags, digest results, configuration key sets), checks the eight formulas of C14 on Sections.tla for every call order the constraints allow, and emits each scenario; each is executed on the real load_section_plugins + load_configuration with recording digests (discovery order and section content incl. None/falsy varied by seed) and the observed call log and outcome are validated by TLC.",
        "note": "<= 4 installed plugins, <= 2 absent names; entry points are injected by replacing the module-level get_entrypoints; acyclic constraint graphs only (the property's quantifier).",
        "design": "5/C14, 4.5",
        "technique": "TLA+ model checking (TLC) + TLC-enumerated scenarios executed on the real loader + trace validation",
    },
    "C06": {
        "spec": "specs/Standardiser.tla + StandardiserTrace.tla",
        "text": "TLC checks the seven formulas of C06 exhaustively on Standardiser.tla for a family of parameter records over all histories of a half-unit grid; an edge cover of the TLC-emitted state graph and seeded random histories are executed on the real Standardiser and every recorded trace is validated by TLC (each property formula on each observed state, each step against the specification's action).",
        "note": "bounded grid (half units, |v|<=15, +-inf limits); floats exact on the grid; TLC, the JSON trace reader and the 150-line driver are trusted; private attribute _demand is read for conformance only.",
        "design": "5/C06, 4.7",
        "technique": "TLA+ model checking (TLC) + trace validation of real executions against the spec",
    },
}

NOT_BUILT = "not claimed"


def main():
    checks = []
    for pid in ALL:
        if pid not in CHECKS:
            continue
        c = CHECKS[pid]
        checks.append(
            {
                "property_id": pid,
                "quick_cmd": "./check %s --tier quick" % pid,
                "thorough_cmd": "./check %s --tier thorough" % pid,
                "evidence_file": "/verif/evidence/%s.json" % pid,
                "replay_cmd_template": "./check %s --replay {path}" % pid,
                "engine": "tlc",
                "level_claimed": {"category": c.get("category", "model_checking"), "text": c["text"], "design_ref": c["design"]},
                "level_note": c["note"],
                "technique": c["technique"],
            }
        )
    na = [{"property_id": p, "reason": NOT_BUILT} for p in ALL if p not in CHECKS]
    hooks_commits = []
    hp = os.path.join(ROOT, "hooks_commits.txt")
    if os.path.exists(hp):
        hooks_commits = [l.split()[0] for l in open(hp) if l.strip()]
    m = {
        "version": 1,
        "setup_cmd": "true",
        "hooks": {
            "guard": "COBALD_VERIF",
            "enable": "COBALD_VERIF=1 in the environment and /verif on PYTHONPATH (./check sets both); the hooks are inert otherwise",
            "baseline_off_cmd": "cd /repo && env -u COBALD_VERIF /venv/bin/python -m pytest -ra -q -p no:cacheprovider --timeout=900",
            "source_commits": hooks_commits,
            "add_only": True,
        },
        "engines": [
            {
                "name": "tlc",
                "path": "/verif/specs",
                "serves_properties": sorted(CHECKS),
                "kind_free_text": "explicit TLA+ specifications checked by TLC 1.8; behaviours emitted by TLC are replayed into the real code and traces recorded from the real code are validated by TLC against the same specifications (vp/*.py drivers)",
            }
        ],
        "checks": checks,
        "not_applicable": na,
        "notes": "All checks: ./check <id> --tier quick|thorough; exit 0 held / 1 VIOLATION / 2 machinery failure. Known findings: /verif/known_findings.json. Design: /verif/DESIGN.md.",
    }
    with open(os.path.join(ROOT, "MANIFEST.json"), "w") as f:
        json.dump(m, f, indent=1)
        f.write("\n")


if __name__ == "__main__":
    main()
