"""Shared check skeleton: tiers, seeds, verdicts, known findings, evidence, replays.

Verdict rules (DESIGN.md 6):
  * VIOLATION  - some OBSERVED execution of the code built from the current tree violates a
                 property formula of the specification (evaluated by TLC on the observed
                 trace), and its fingerprint is not listed as `known` in known_findings.json.
  * KNOWN-FINDING - same, fingerprint listed as `known`: printed, exit 0.
  * DRIFT      - the code did something the specification's actions do not allow, but no
                 property formula failed on anything observed: printed, exit 0.
  * exit 2     - the machinery itself failed (TLC crash, spec error): never a VIOLATION.
"""
import hashlib
import json
import os
import sys
import time
import traceback

from . import tlc

ROOT = os.path.dirname(os.path.dirname(os.path.abspath(__file__)))
EVIDENCE = os.environ.get("VERIF_EVIDENCE_DIR") or os.path.join(ROOT, "evidence")
REPLAYS = os.path.join(ROOT, "replays")
KNOWN = os.path.join(ROOT, "known_findings.json")

LEVELS = ("exploration", "fault_enumeration", "model_checking", "proof", "translation_validation", "other")


def repo_root():
    return os.environ.get("VERIF_REPO", "/repo")


def setup_repo_path():
    """Make `import cobald` resolve to the tree under test (default /repo, editable install)."""
    src = os.path.join(repo_root(), "src")
    if src not in sys.path:
        sys.path.insert(0, src)
    if ROOT not in sys.path:
        sys.path.insert(0, ROOT)


def child_env(extra=None):
    """Environment for sub-processes that import the code under test (hooks on)."""
    e = dict(os.environ)
    pp = [os.path.join(repo_root(), "src"), ROOT]
    if e.get("PYTHONPATH"):
        pp.append(e["PYTHONPATH"])
    e["PYTHONPATH"] = os.pathsep.join(pp)
    e["COBALD_VERIF"] = "1"
    e.setdefault("PYTHONHASHSEED", "0")
    if extra:
        e.update(extra)
    return e


class Ctx:
    """State of one check run."""

    def __init__(self, prop, tier, seed):
        self.prop = prop
        self.tier = tier
        self.seed = seed
        self.t0 = time.time()
        self.states = 0
        self.transitions = 0
        self.model_runs = []  # per cfg: name, states, distinct, wall, exhaustive
        self.exhaustive = True
        self.traces_total = 0
        self.traces_accepted = 0
        self.traces_nc = 0
        self.events_total = 0
        self.violations = []  # dicts: invariant, fingerprint, what, replay(case), known(bool)
        self.drift = []
        self.samples = []
        self.assumptions = []
        self.extra = {}
        self.distinct = set()
        self.coverage = {}
        self.level = "model_checking"

    def child(self):
        """a scratch context for work done in another thread; merge() it afterwards"""
        return Ctx(self.prop, self.tier, self.seed)

    def merge(self, other):
        for k in ("states", "transitions", "traces_total", "traces_accepted", "traces_nc", "events_total"):
            setattr(self, k, getattr(self, k) + getattr(other, k))
        self.exhaustive = self.exhaustive and other.exhaustive
        self.model_runs += other.model_runs
        self.violations += other.violations
        self.drift += other.drift
        self.samples = self.samples or other.samples
        self.distinct |= other.distinct
        for a, (d, t) in other.coverage.items():
            d0, t0 = self.coverage.get(a, (0, 0))
            self.coverage[a] = (d0 + d, t0 + t)
        for k, v in other.extra.items():
            if isinstance(v, (int, float)) and isinstance(self.extra.get(k), (int, float)):
                self.extra[k] += v
            else:
                self.extra.setdefault(k, v)

    # ---- model side
    def add_model_run(self, name, res, exhaustive=True, note=None):
        self.states += res.distinct
        self.transitions += res.generated
        if not exhaustive:
            self.exhaustive = False
        self.model_runs.append(
            {
                "cfg": name,
                "states": res.distinct,
                "transitions": res.generated,
                "depth": res.depth,
                "wall_s": round(res.wall, 2),
                "exhaustive": exhaustive,
                **({"note": note} if note else {}),
            }
        )
        for a, (d, t) in res.coverage.items():
            d0, t0 = self.coverage.get(a, (0, 0))
            self.coverage[a] = (d0 + d, t0 + t)

    def model_must_hold(self, name, res):
        """The specification itself must satisfy its properties; if TLC finds a
        counterexample in the *design*, that is a defect of /verif (modelling error) unless
        it is reproduced on the code, which is the job of the replay step.  We treat an
        unexpected design counterexample as machinery failure so it is never believed as a
        verdict about the code."""
        tlc.require_ok(res, name)
        if res.violated:
            raise tlc.MachineryError(
                "%s: the specification violates %s (modelling error, fix /verif):\n%s"
                % (name, res.violated, res.out[-4000:])
            )

    # ---- code side
    def note_distinct(self, key):
        self.distinct.add(key if isinstance(key, str) else json.dumps(key, sort_keys=True))

    def add_violation(self, invariant, fingerprint, what, case, detail=None):
        self.violations.append(
            {"invariant": invariant, "fingerprint": fingerprint, "what": what, "case": case, "detail": detail}
        )

    def add_drift(self, what, case=None):
        if len(self.drift) < 50:
            self.drift.append({"what": what, "case": case})
        else:
            self.drift.append(None)


def load_known():
    try:
        with open(KNOWN) as f:
            return json.load(f).get("findings", [])
    except FileNotFoundError:
        return []


def _matches(entry_fp, fp):
    return all(fp.get(k) == v for k, v in entry_fp.items())


def write_replay(prop, payload):
    os.makedirs(REPLAYS, exist_ok=True)
    blob = json.dumps(payload, sort_keys=True, indent=1, default=str)
    h = hashlib.sha1(blob.encode()).hexdigest()[:12]
    path = os.path.join(REPLAYS, "%s-%s.json" % (prop, h))
    with open(path, "w") as f:
        f.write(blob)
    return path


def finish(ctx):
    """Classify violations against known findings, write evidence, print verdict lines.
    Returns the process exit status."""
    known = [k for k in load_known() if k.get("property") == ctx.prop and k.get("status") == "known"]
    new, listed = [], {}
    for v in ctx.violations:
        hit = None
        for k in known:
            if _matches(k.get("fingerprint", {}), v["fingerprint"]):
                hit = k
                break
        if hit is None:
            new.append(v)
        else:
            listed.setdefault(hit["key"], (hit, []))[1].append(v)
    status = 0
    for key, (k, vs) in sorted(listed.items()):
        print("KNOWN-FINDING: property=%s %s [%s; %d occurrence(s) this run]" % (ctx.prop, k.get("what", key), key, len(vs)))
    # one VIOLATION line per distinct fingerprint
    seen = {}
    for v in new:
        fk = json.dumps(v["fingerprint"], sort_keys=True)
        seen.setdefault(fk, []).append(v)
    for fk, vs in seen.items():
        v = vs[0]
        path = write_replay(ctx.prop, {"property": ctx.prop, "invariant": v["invariant"], "fingerprint": v["fingerprint"], "what": v["what"], "case": v["case"], "detail": v["detail"], "occurrences": len(vs)})
        print("VIOLATION property=%s replay=%s" % (ctx.prop, path))
        print("  invariant=%s %s (%d occurrence(s))" % (v["invariant"], v["what"], len(vs)))
        status = 1
    ndrift = len(ctx.drift)
    if ndrift:
        first = next(d for d in ctx.drift if d)
        print("DRIFT property=%s %d observed step(s) are not steps of the specification (no property formula failed on them); first: %s" % (ctx.prop, ndrift, first["what"]))
    write_evidence(ctx, len(new), sorted(listed))
    wall = time.time() - ctx.t0
    print(
        "%s tier=%s seed=%d states=%d transitions=%d traces=%d accepted=%d drift=%d violations=%d known=%d wall=%.1fs"
        % (ctx.prop, ctx.tier, ctx.seed, ctx.states, ctx.transitions, ctx.traces_total, ctx.traces_accepted, ndrift, len(new), sum(len(v[1]) for v in listed.values()), wall)
    )
    return status


def write_evidence(ctx, nviol, known_keys):
    os.makedirs(EVIDENCE, exist_ok=True)
    cov = {
        "states": ctx.states,
        "transitions": ctx.transitions,
        "traces_validated_against_impl": ctx.traces_accepted,
        "traces_recorded": ctx.traces_total,
        "traces_not_a_behaviour": ctx.traces_nc,
        "events_validated": ctx.events_total,
        "evaluations": max(ctx.traces_total, 1),
        "distinct_nontrivial": len(ctx.distinct),
        "rule": ctx.extra.pop("rule", "distinct = distinct (inputs, observed outputs) of executed cases that exercise the property's antecedent"),
        "samples": ctx.samples[:5] or ["<none>"],
        "exhaustive": bool(ctx.exhaustive and ctx.model_runs),
        "model_runs": ctx.model_runs,
        "action_coverage": {a: {"distinct": d, "total": t} for a, (d, t) in sorted(ctx.coverage.items())},
        "zero_coverage_actions": sorted(a for a, (d, t) in ctx.coverage.items() if t == 0),
        "conformance": "drift" if ctx.drift else "conforms",
        "known_findings_seen": known_keys,
    }
    cov.update(ctx.extra)
    level = ctx.level
    if ctx.drift:
        # the exhaustive result for the model does not transfer to the steps that drifted
        # (DESIGN 6.1); the level stays the claimed one, the evidence says what drifted
        cov["drift_examples"] = [d["what"][:300] for d in ctx.drift[:3] if d]
    if level == "model_checking" and (ctx.states < 1 or ctx.transitions < 1):
        level = "exploration"
    ev = {
        "property_id": ctx.prop,
        "tier": ctx.tier,
        "seed": ctx.seed,
        "level": level,
        "coverage": cov,
        "assumptions": ctx.assumptions,
        "wall_s": round(time.time() - ctx.t0, 2),
        "violations": nviol,
    }
    path = os.path.join(EVIDENCE, ctx.prop + ".json")
    tmp = path + ".tmp"
    with open(tmp, "w") as f:
        json.dump(ev, f, indent=1, sort_keys=True, default=str)
    os.replace(tmp, path)


def main(prop, runner, argv):
    import argparse

    ap = argparse.ArgumentParser(prog="check " + prop)
    ap.add_argument("--tier", default=os.environ.get("VERIF_TIER", "quick"), choices=["quick", "thorough"])
    ap.add_argument("--replay", default=None)
    ap.add_argument("--seed", type=int, default=None)
    args = ap.parse_args(argv)
    seed = args.seed if args.seed is not None else int(os.environ.get("VERIF_SEED", "0") or 0)
    setup_repo_path()
    ctx = Ctx(prop, args.tier, seed)
    try:
        if args.replay:
            with open(args.replay) as f:
                payload = json.load(f)
            runner.replay(ctx, payload)
        else:
            runner.run(ctx)
        rc = finish(ctx)
    except tlc.MachineryError as e:
        print("MACHINERY-FAILURE property=%s %s" % (prop, e), file=sys.stderr)
        rc = 2
    except Exception:
        traceback.print_exc()
        print("MACHINERY-FAILURE property=%s unexpected exception in the harness" % prop, file=sys.stderr)
        rc = 2
    finally:
        tlc.cleanup()
    return rc
