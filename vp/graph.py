"""State graphs emitted by TLC -> behaviours (paths) that cover every edge.

A spec's emission cfg has  ACTION_CONSTRAINT Emit  with
    Emit == PrintT(<<"EDGE", ToJson([f |-> View, a |-> act', t |-> View'])>>)
so TLC prints one line per explored transition between abstract states.  The harness
rebuilds the graph and derives a set of paths from initial states that together traverse
every edge (quick) or a seeded sample of it (when over budget).  Each path is then forced
onto the real object by the property's driver.
"""
import json
import random
from collections import defaultdict, deque


class Graph:
    def __init__(self):
        self.out = defaultdict(list)  # node -> [(action_json, to_node)]
        self.nodes = {}
        self.inits = set()
        self.nedges = 0
        self._seen = set()

    def add_edge(self, f, a, t):
        fk, ak, tk = json.dumps(f, sort_keys=True), json.dumps(a, sort_keys=True), json.dumps(t, sort_keys=True)
        key = (fk, ak, tk)
        if key in self._seen:
            return
        self._seen.add(key)
        self.nodes[fk] = f
        self.nodes[tk] = t
        self.out[fk].append((ak, tk))
        self.nedges += 1

    def finalize(self, inits=None):
        """Initial states: given explicitly, or the nodes without incoming edges."""
        if inits is not None:
            self.inits = {json.dumps(i, sort_keys=True) for i in inits}
            for i in inits:
                self.nodes[json.dumps(i, sort_keys=True)] = i
        else:
            incoming = {t for outs in self.out.values() for _, t in outs}
            self.inits = set(self.nodes) - incoming
        self._seen = None


def from_prints(prints, init_tag="INIT", edge_tag="EDGE"):
    g = Graph()
    inits = []
    for p in prints:
        if p[0] == edge_tag:
            e = json.loads(p[1])
            g.add_edge(e["f"], e["a"], e["t"])
        elif p[0] == init_tag:
            inits.append(json.loads(p[1]))
    g.finalize(inits or None)
    return g


def edge_cover_paths(g, max_len=40, budget_edges=None, seed=0):
    """Greedy edge cover: walk from an initial state along uncovered edges; when stuck, take
    the shortest route to the nearest node that still has an uncovered edge; cut paths at
    max_len.  Returns list of (init_node_obj, [action_obj...], [expected_node_obj...]).

    With budget_edges, stops once that many edge traversals have been scheduled; the edges
    are visited in an order shuffled by seed so different seeds sample different parts."""
    rnd = random.Random(seed)
    uncovered = {n: list(outs) for n, outs in g.out.items()}
    for outs in uncovered.values():
        rnd.shuffle(outs)
    remaining = sum(len(o) for o in uncovered.values())
    # which initial state reaches which node: BFS per init lazily
    paths = []
    inits = sorted(g.inits)
    rnd.shuffle(inits)
    scheduled = 0

    def nearest_uncovered(src):
        """BFS from src to a node with uncovered out-edges; returns list of (a, t) steps."""
        if uncovered.get(src):
            return []
        prev = {src: None}
        dq = deque([src])
        while dq:
            u = dq.popleft()
            for a, t in g.out.get(u, ()):
                if t in prev:
                    continue
                prev[t] = (u, a)
                if uncovered.get(t):
                    steps = []
                    x = t
                    while prev[x] is not None:
                        u2, a2 = prev[x]
                        steps.append((a2, x))
                        x = u2
                    steps.reverse()
                    return steps
                dq.append(t)
        return None

    for init in inits:
        while True:
            route = nearest_uncovered(init)
            if route is None:
                break
            cur = init
            acts, exps = [], []
            for a, t in route:
                acts.append(a)
                exps.append(t)
                cur = t
            while len(acts) < max_len:
                outs = uncovered.get(cur)
                if outs:
                    a, t = outs.pop()
                    remaining -= 1
                    scheduled += 1
                else:
                    more = nearest_uncovered(cur)
                    if not more or len(acts) + len(more) >= max_len:
                        break
                    for a2, t2 in more:
                        acts.append(a2)
                        exps.append(t2)
                        cur = t2
                    continue
                acts.append(a)
                exps.append(t)
                cur = t
            paths.append((g.nodes[init], [json.loads(a) for a in acts], [g.nodes[t] for t in exps]))
            if budget_edges is not None and scheduled >= budget_edges:
                return paths, remaining
        if budget_edges is not None and scheduled >= budget_edges:
            break
    return paths, remaining
