"""Fixture pipeline elements for the process-level check C13.  Every instance appends lines to
the event file named by VP_EVENT_FILE:  constructed <name> <inloop>, run <name>, beat <name> <n>,
cancelled <name>, failing <name>."""
import asyncio
import gc
import os
import threading
import time

import trio

from cobald.interfaces import Pool, PoolDecorator, Controller
from cobald.daemon import service

_lock = threading.Lock()


def log(*words):
    path = os.environ.get("VP_EVENT_FILE")
    if not path:
        return
    with _lock:
        with open(path, "a") as f:
            f.write(" ".join(str(w) for w in words) + "\n")


def in_loop():
    try:
        asyncio.get_running_loop()
        return 1
    except RuntimeError:
        return 0


PARK = bool(os.environ.get("VP_FX_PARK"))


class _Base:
    def __bool__(self):
        return not getattr(self, "falsy", False)

    def _constructed(self, name, fail_after=0, falsy=False):
        self.name = name
        self.fail_after = fail_after
        self.falsy = falsy  # an element may be falsy (an empty group pool, say)
        log("constructed", name, in_loop())


class DPool(Pool, _Base):
    supply, demand, utilisation, allocation = 0, 0, 1.0, 1.0

    def __init__(self, name="pool", fail_after=0, falsy=False):
        self._constructed(name, fail_after, falsy)


class DDeco(PoolDecorator, _Base):
    def __init__(self, target, name="deco", fail_after=0, falsy=False):
        super().__init__(target)
        self._constructed(name, fail_after, falsy)


class DBadCtor(PoolDecorator, _Base):
    def __init__(self, target, name="bad", fail_after=0, falsy=False):
        log("constructed", name, in_loop())
        raise TypeError("DBadCtor rejects its arguments")


class ServiceAbort(BaseException):
    """a failure that is no Exception subclass"""


def _failure(self):
    # (an even fail_after makes it a BaseException that is no Exception)
    cls = RuntimeError if self.fail_after % 2 else ServiceAbort
    return cls("service %s fails" % self.name)


async def _beat_trio(self):
    log("run", self.name)
    n = 0
    try:
        while True:
            n += 1
            log("beat", self.name, n)
            if self.fail_after and n >= self.fail_after:
                log("failing", self.name)
                raise _failure(self)
            if PARK:
                gc.collect()   # a cyclic garbage collection happens now and then
            await trio.sleep(0.02)
    except trio.Cancelled:
        log("cancelled", self.name)
        raise


async def _beat_asyncio(self):
    log("run", self.name)
    n = 0
    try:
        while True:
            n += 1
            log("beat", self.name, n)
            if self.fail_after and n >= self.fail_after:
                log("failing", self.name)
                raise _failure(self)
            if PARK and n >= 2 and not self.fail_after:
                # from now on the service waits for something only it knows about (no timer, no
                # queue): it is still a service the daemon has to keep and, at the end, cancel
                await asyncio.get_running_loop().create_future()
            await asyncio.sleep(0.02)
    except asyncio.CancelledError:
        log("cancelled", self.name)
        raise


def _beat_thread(self):
    log("run", self.name)
    n = 0
    while True:
        n += 1
        log("beat", self.name, n)
        if self.fail_after and n >= self.fail_after:
            log("failing", self.name)
            raise _failure(self)
        if PARK:
            gc.collect()
        time.sleep(0.02)


@service(flavour=trio)
class DCtrlTrio(Controller, _Base):
    def __init__(self, target, name="ctrl", fail_after=0, falsy=False):
        super().__init__(target)
        self._constructed(name, fail_after, falsy)

    run = _beat_trio


@service(flavour=asyncio)
class DCtrlAsyncio(Controller, _Base):
    def __init__(self, target, name="ctrl", fail_after=0, falsy=False):
        super().__init__(target)
        self._constructed(name, fail_after, falsy)

    run = _beat_asyncio


@service(flavour=threading)
class DCtrlThread(Controller, _Base):
    def __init__(self, target, name="ctrl", fail_after=0, falsy=False):
        super().__init__(target)
        self._constructed(name, fail_after, falsy)

    run = _beat_thread


@service(flavour=trio)
class _DecoService(PoolDecorator, _Base):
    def __init__(self, target, name="deco", fail_after=0, falsy=False):
        super().__init__(target)
        self._constructed(name, fail_after, falsy)

    run = _beat_trio


@service(flavour=trio)
class DDecoTrio(_DecoService):
    """a service class derived from a service class and declared a service once more: still
    ONE service per instance"""


class Site:
    """a namespace class: ``__type__`` may name an object nested in a class
    (``vp.fx_daemon.Site.DPool``), not only a module attribute"""

    class Inner:
        pass


for _n in ("DPool", "DDeco", "DBadCtor", "DCtrlTrio", "DCtrlAsyncio", "DCtrlThread", "DDecoTrio"):
    setattr(Site, _n, globals()[_n])
    setattr(Site.Inner, _n, globals()[_n])
