"""Canaries for C18: things a malicious YAML tag could name.  Every use is recorded."""
FIRED = []


def sentinel(*args, **kwargs):
    FIRED.append("vp.fx_canary.sentinel")
    return "sentinel-result"


class Canary:
    def __new__(cls, *args, **kwargs):
        FIRED.append("vp.fx_canary.Canary")
        return object.__new__(cls)

    def __init__(self, *args, **kwargs):
        FIRED.append("vp.fx_canary.Canary")

    def __setstate__(self, state):
        FIRED.append("vp.fx_canary.Canary")
