"""Scenarios for the runtime checks: TLC-generated behaviours -> gated scripts -> real runs ->
normalised traces -> TLC trace validation (shared by C01, C02, C03, C10, C11, C12)."""
import json
import os
import random
import subprocess
import sys
from concurrent.futures import ThreadPoolExecutor

from .. import core, tlc, traceval

FLAVS = ["asyncio", "trio", "threading"]


def how_class(how):
    if how == "none":
        return "none"
    if how.startswith("val:"):
        return "val"
    if how.startswith("exc:"):
        return "exc"
    if how == "base:KeyboardInterrupt":
        return "kbd"
    return "base"


# ------------------------------------------------------------------ constants of a scenario
def epoch_script(scn):
    """scenario flag epoch=2: the SECOND run of the same runtime is what is validated; what was
    adopted after the first run ended counts as queued before (this) start"""
    script = scn["script"]
    if scn.get("epoch") != 2:
        return script
    i = next(k for k, o in enumerate(script) if o["op"] == "reaccept_start")
    j = max(k for k, o in enumerate(script[:i]) if o["op"] == "wait_end")
    return [dict(o, op="accept") if o["op"] == "reaccept_start" else o for o in script[j + 1:]]


def consts_of(scn):
    scn = dict(scn, script=epoch_script(scn))
    pay = dict(scn["payloads"])
    svc = dict(scn.get("services", {}))
    allp = {**pay, **svc}
    ends = {p: ({how_class(allp[p]["immediate"])} if allp[p].get("immediate") else set()) for p in allp}
    for p in allp:
        if allp[p].get("on_cancel"):
            ends[p].add(how_class(allp[p]["on_cancel"]))
    pre, seen_accept, execs = set(), False, []
    for op in scn["script"]:
        o = op["op"]
        if o == "accept":
            seen_accept = True
        elif o == "adopt" and not seen_accept:
            pre.add(op["p"])
        elif o == "new_service" and not seen_accept:
            pre.add(op["s"])
        elif o == "end":
            ends[op["p"]].add(how_class(op["how"]))
        elif o == "execute":
            execs.append(allp[op["p"]]["flavour"])
            x = allp[op["p"]]
            while x.get("nested"):
                # the executed payload executes another one itself: the next call number
                x = allp[x["nested"]]
                execs.append(x["flavour"])
        elif o == "bg" and not seen_accept:
            pre.add(op["inner"]["p"])
        elif o == "race_adopts" and not seen_accept:
            pre.update(op["ps"])
            if op.get("with_accept"):
                seen_accept = True
    return {
        "payloads": sorted(allp),
        "flav": {p: allp[p]["flavour"] for p in allp},
        "ends": {p: sorted(ends[p]) for p in allp},
        "cleanup": {p: (allp[p].get("cleanup", 0) + allp[p].get("shielded", 0)) if allp[p]["flavour"] != "threading" else 0 for p in allp},
        "pre": sorted(pre),
        "services": sorted(svc),
        "execs": execs,
    }


def q(s):
    return '"%s"' % s


def tla_set(xs):
    return "{" + ", ".join(q(x) for x in xs) + "}"


def tla_fn(dom_name, mapping, val):
    if not mapping:
        return "[p \\in {} |-> 0]"
    items = sorted(mapping.items())
    body = " ".join("[] p = %s -> %s" % (q(k), val(v)) for k, v in items[1:])
    return "[p \\in %s |-> CASE p = %s -> %s %s]" % (dom_name, q(items[0][0]), val(items[0][1]), body)


def consts_module(c, name, extends):
    L = ["---- MODULE %s ----" % name, "EXTENDS %s" % extends]
    L.append("C_Payloads == " + tla_set(c["payloads"]))
    L.append("C_Flav == " + tla_fn("C_Payloads", c["flav"], q))
    L.append("C_Ends == " + tla_fn("C_Payloads", c["ends"], tla_set))
    L.append("C_Cleanup == " + tla_fn("C_Payloads", c["cleanup"], str))
    L.append("C_Pre == " + tla_set(c["pre"]))
    L.append("C_Services == " + tla_set(c["services"]))
    xs = {"x%d" % (i + 1): f for i, f in enumerate(c["execs"])}
    L.append("C_XIds == " + tla_set(sorted(xs)))
    L.append("C_Execs == " + (tla_fn("C_XIds", xs, q).replace("[p \\in {} |-> 0]", '[p \\in {} |-> "asyncio"]')))
    return L


CONSTS_CFG = " Payloads <- C_Payloads\n Flav <- C_Flav\n Ends <- C_Ends\n Cleanup <- C_Cleanup\n Pre <- C_Pre\n Services <- C_Services\n Execs <- C_Execs\n"


# ------------------------------------------------------------------ model checking / simulation
def model_check(c, name, invariants, properties, allow=("sigint", "shutdown", "second"), timeout=1500, workers=8):
    L = consts_module(c, name, "Runtime")
    L.append("====")
    cfg = "SPECIFICATION Spec\nCONSTANTS\n" + CONSTS_CFG
    cfg += " AllowSigint = %s\n AllowShutdown = %s\n AllowSecond = %s\n" % tuple("TRUE" if a in allow else "FALSE" for a in ("sigint", "shutdown", "second"))
    cfg += "".join("INVARIANT %s\n" % i for i in invariants) + "".join("PROPERTY %s\n" % p for p in properties)
    return tlc.run(name, cfg, module_text="\n".join(L), timeout=timeout, workers=workers)


def simulate_scripts(c, name, allow, num, depth, seed):
    """behaviours of Runtime.tla, projected to the actions the driver controls"""
    L = consts_module(c, name, "Runtime, Json")
    L.append("VARIABLE hist")
    L.append("Lab(a) == hist' = Append(hist, a)")
    L.append(
        "SimNext ==\n"
        '    \\/ \\E p \\in Payloads : (AdoptCall(p) /\\ Lab([a |-> "adopt", p |-> p, how |-> ""]))\n'
        '    \\/ \\E p \\in Payloads : (Step(p) /\\ Lab([a |-> "step", p |-> p, how |-> ""]))\n'
        '    \\/ \\E p \\in Payloads : \\E hw \\in Hows : (End(p, hw) /\\ Lab([a |-> "end", p |-> p, how |-> hw]))\n'
        '    \\/ \\E r \\in 1..2 : (AcceptCall(r) /\\ Lab([a |-> "accept", p |-> ToString(r), how |-> ""]))\n'
        '    \\/ (SigintSend /\\ Lab([a |-> "sigint", p |-> "", how |-> ""]))\n'
        '    \\/ (ShutdownCall /\\ Lab([a |-> "shutdown", p |-> "", how |-> ""]))\n'
        '    \\/ \\E x \\in DOMAIN Execs : (ExecCall(x) /\\ Lab([a |-> "execute", p |-> x, how |-> ""]))\n'
        "    \\/ (UNCHANGED hist /\\ (\\/ \\E p \\in Payloads : AdoptRet(p) \\/ Discard(p) \\/ Start(p) \\/ Cancelled(p) \\/ CleanupStep(p)\n"
        "                          \\/ \\E r \\in 1..2 : RunningSet(r) \\/ CloseBegin(r) \\/ CloseEnd(r) \\/ \\E res \\in ResultFor(r) : AcceptRet(r, res)\n"
        "                          \\/ ShutdownRet \\/ \\E x \\in DOMAIN Execs : XStart(x) \\/ XEnd(x) \\/ ExecRet(x)))"
    )
    L.append("SimSpec == (Init /\\ hist = <<>>) /\\ [][SimNext]_<<vars, hist>>")
    L.append('EmitPath == (TLCGet("level") < %d /\\ phase[1] # "ended") \\/ (PrintT(<<"PATH", ToJson(hist)>>) /\\ FALSE)' % depth)
    L.append("====")
    cfg = "SPECIFICATION SimSpec\nCONSTANTS\n" + CONSTS_CFG
    cfg += " AllowSigint = %s\n AllowShutdown = %s\n AllowSecond = %s\n" % tuple("TRUE" if a in allow else "FALSE" for a in ("sigint", "shutdown", "second"))
    cfg += "CONSTRAINT EmitPath\n"
    paths, res = tlc.simulate_paths(name, cfg, "\n".join(L), num=num, depth=depth, seed=seed, name=name)
    # distinct projected behaviours
    seen, out = set(), []
    for p in paths:
        k = json.dumps(p)
        if k not in seen and p:
            seen.add(k)
            out.append(p)
    return out, res


def script_of_path(path, base, rnd, hows):
    """projected behaviour -> gated script.  base: scenario skeleton with payloads/services;
    hows[p][class] = concrete way to end."""
    allp = {**base["payloads"], **base.get("services", {})}
    script, accepted, execn = [], False, 0
    started_wait = set()
    triggered = False
    for a in path:
        k = a["a"]
        if k == "accept":
            if a["p"] != "1" and not accepted:
                continue  # the harness's runner 1 always accepts first; competitors come later
            if a["p"] == "1":
                script += [{"op": "accept"}, {"op": "wait_running"}]
                accepted = True
            else:
                script.append({"op": "second_accept"})
        elif k == "adopt":
            p = a["p"]
            if p in base.get("services", {}):
                ctx = rnd.choice(base.get("svc_ctx", ["driver"])) if accepted else "driver"
                script.append({"op": "new_service", "s": p, "ctx": ctx})
            else:
                ctxs = base.get("ctx", {}).get(p) or ["driver", "thread"]
                ctx = rnd.choice(ctxs) if accepted else "driver"
                if ctx.startswith("payload:") and ctx.split(":")[1] not in started_wait:
                    ctx = "thread"
                script.append({"op": "adopt", "p": p, "ctx": ctx})
        elif k in ("step", "end"):
            p = a["p"]
            if not accepted:
                continue
            if p not in started_wait:
                script.append({"op": "wait_start", "p": p})
                started_wait.add(p)
            if k == "step":
                script.append({"op": "step", "p": p})
            else:
                script.append({"op": "end", "p": p, "how": rnd.choice(hows[p][a["how"]])})
                if a["how"] != "none":
                    triggered = True
        elif k == "sigint":
            script.append({"op": "sigint"})
            triggered = True
        elif k == "shutdown":
            script.append({"op": "shutdown", "ctx": "thread", "wait": rnd.random() < 0.5})
            triggered = True
        elif k == "execute":
            execn += 1
            pid = base["exec_payloads"][execn - 1]
            script.append({"op": "execute", "p": pid, "ctx": rnd.choice(base.get("exec_ctx", ["driver", "thread"])), "how": rnd.choice(base["exec_hows"])})
    if not accepted:
        script += [{"op": "accept"}, {"op": "wait_running"}]
    if triggered:
        script.append({"op": "wait_end", "timeout": 4.0})
    else:
        script.append({"op": "polls", "n": 3})
    return script


# ------------------------------------------------------------------ running scenarios
def run_one(scn):
    env = core.child_env()
    try:
        p = subprocess.run([sys.executable, "-m", "vp.rt.harness"], input=json.dumps(scn), env=env, text=True, stdout=subprocess.PIPE, stderr=subprocess.PIPE, timeout=scn.get("timeout", 12.0) + 8)
    except subprocess.TimeoutExpired:
        return {"events": [], "error": "harness timeout"}
    if p.returncode != 0 or not p.stdout.strip():
        return {"events": [], "error": "harness failed rc=%s: %s" % (p.returncode, p.stderr[-1500:])}
    try:
        return json.loads(p.stdout)
    except ValueError:
        return {"events": [], "error": "harness output unreadable: %s" % p.stdout[-500:]}


def run_all(scenarios, parallel=16):
    with ThreadPoolExecutor(max_workers=parallel) as ex:
        return list(ex.map(run_one, scenarios))


# ------------------------------------------------------------------ normalisation
def normalize(scn, raw):
    ev = raw["events"]
    if scn.get("epoch") == 2:
        # keep what happened after the first run ended; the second accept is runner 1 of the epoch
        cut = next((i for i, e in enumerate(ev) if e["e"] == "accept.ret" and e.get("r") == 1), -1)
        # (execute calls are numbered through the whole process: count from the epoch's first)
        before = len([e for e in ev[:cut + 1] if e["e"] == "exec.call"])
        ev = [dict(e, r=1) if e["e"] in ("accept.call", "accept.ret") and e.get("r") == 2 else e for e in ev[cut + 1:] if e["e"] != "guard.release"]
        ev = [dict(e, call=e["call"] - before) if "call" in e and e["e"] in ("exec.call", "exec.ret", "x.start", "x.end") else e for e in ev]
    c = consts_of(scn)
    svc = set(c["services"])
    # which runner a hook event belongs to: the latest accept.call on its thread before it
    main_tid = next((e["tid"] for e in ev if e["e"] == "accept.call" and e["r"] == 1), None)
    acc_tid = {}
    owner = {}
    for i, e in enumerate(ev):
        if e["e"] == "accept.call":
            acc_tid[e["tid"]] = e["r"]
        owner[i] = acc_tid.get(e["tid"])
    trio_tid = next((e["tid"] for e in ev if e["e"] == "t.run.begin"), None)
    loops = {"asyncio": {}, "trio": {}}

    def tidc(e):
        # (thread idents are reused once a thread has died: a payload thread named by the
        #  harness is a payload thread even if it inherited the ident of the old trio thread)
        if str(e.get("th", "")).startswith("pth:"):
            return "other"
        if e["tid"] == main_tid:
            return "main"
        if trio_tid is not None and e["tid"] == trio_tid:
            return "trio"
        return "other"

    def loopn(e):
        f = e.get("flavour")
        if f not in loops:
            return 0
        m = loops[f]
        if e.get("loop", 0) not in m:
            m[e.get("loop", 0)] = len(m) + 1
        return m[e.get("loop", 0)]

    # accept() has ended, as far as the exclusive guard is concerned, when the guard is about to
    # be released ("guard.releasing", recorded BEFORE the release): the harness's own accept.ret
    # comes later, and another accept may legitimately have got in between.  The AcceptRet event
    # is therefore placed at the releasing point, with the outcome the later accept.ret reports.
    ret_at, ret_skip = {}, set()
    for j, e in enumerate(ev):
        if e["e"] == "accept.ret":
            k = next((i for i in range(j - 1, -1, -1) if ev[i]["tid"] == e["tid"] and ev[i]["e"] in ("guard.releasing", "accept.call")), None)
            if k is not None and ev[k]["e"] == "guard.releasing":
                ret_at[k] = j
                ret_skip.add(j)
    out = []
    deferred_accept = {}
    for i, e in enumerate(ev):
        n = e["e"]
        if i in ret_at:
            e = ev[ret_at[i]]
            n = "accept.ret"
        elif i in ret_skip:
            continue
        if n == "adopt.call":
            out.append({"e": "AdoptCall", "p": e["p"], "from": "cleanup" if str(e.get("ctx", "")).startswith("cleanup:") else "outside"})
        elif n == "adopt.ret":
            out.append({"e": "AdoptRet", "p": e["p"], "ok": bool(e["ok"]), "exc": e.get("exc", "")})
        elif n == "svc.new":
            out.append({"e": "SvcNew", "p": e["s"]})
        elif n == "p.start":
            out.append({"e": "Start", "p": e["p"], "tidc": tidc(e), "loop": loopn(e), "argsok": bool(e["argsok"])})
        elif n == "p.step":
            out.append({"e": "Step", "p": e["p"]})
        elif n == "p.end":
            out.append({"e": "End", "p": e["p"], "how": how_class(e["how"])})
        elif n == "p.cancel.swallowed":
            out.append({"e": "Step", "p": e["p"]})
        elif n == "p.cancelled":
            out.append({"e": "Cancelled", "p": e["p"]})
        elif n == "p.cleanup.step":
            out.append({"e": "CleanupStep", "p": e["p"]})
        elif n == "p.cleanup.done":
            out.append({"e": "CleanupDone", "p": e["p"]})
        elif n == "p.block":
            out.append({"e": "Block", "p": e["p"]})
        elif n in ("p.seg.enter", "p.seg.exit"):
            out.append({"e": "SegEnter" if n.endswith("enter") else "SegExit", "p": e["p"], "flavour": e["flavour"]})
        elif n == "guard.acquire" and i in deferred_accept:
            # (the call takes effect where it tries the guard: that is its place in the trace)
            out.append({"e": "AcceptCall", "r": deferred_accept[i], "ok": bool(e["ok"])})
        elif n == "accept.call":
            ok = None
            for j, f in enumerate(ev[i + 1:], i + 1):
                if f["tid"] == e["tid"] and f["e"] == "guard.acquire":
                    ok = bool(f["ok"])
                    deferred_accept[j] = e["r"]
                    break
                if f["tid"] == e["tid"] and f["e"] == "accept.ret":
                    break
            if ok is not None:
                continue
            if ok is None:
                nxt = next((f for f in ev[i + 1:] if f["tid"] == e["tid"] and f["e"] in ("accept.ret", "mr.running.set")), None)
                ok = not (nxt is not None and nxt["e"] == "accept.ret" and nxt.get("exc") == "RuntimeError" and not nxt.get("wrapped"))
            out.append({"e": "AcceptCall", "r": e["r"], "ok": ok})
        elif n == "mr.running.set" and owner.get(i):
            out.append({"e": "RunningSet", "r": owner[i]})
        elif n == "mr.aclose.begin" and owner.get(i):
            out.append({"e": "CloseBegin", "r": owner[i]})
        elif n == "mr.aclose.end" and owner.get(i):
            out.append({"e": "CloseEnd", "r": owner[i]})
        elif n == "accept.ret":
            if e["outcome"] == "returned":
                kind = "returned"
            elif e.get("wrapped") and e.get("exc") == "RuntimeError":
                kind = "runtime_error"
            else:
                kind = "raised"
            out.append({"e": "AcceptRet", "r": e["r"], "kind": kind, "cause": e.get("cause_p") or "-", "exc": e.get("exc", ""), "cause_kind": e.get("cause_kind", "")})
        elif n == "sr.svc.exit" and owner.get(i) == 1 or (n == "sr.svc.exit" and owner.get(i) is None and not any(x["e"] == "accept.call" and x.get("r", 1) > 1 for x in ev[:i])):
            out.append({"e": "SvcLoopExit"})
        elif n == "sigint.send":
            out.append({"e": "Sigint"})
        elif n in ("shutdown.call", "teardown.begin"):
            if e.get("ctx") != "thread2":
                out.append({"e": "ShutdownCall", "teardown": n == "teardown.begin"})
        elif n == "shutdown.ret":
            out.append({"e": "ShutdownRet", "ok": bool(e["ok"]), "exc": e.get("exc", "")})
        elif n == "exec.call":
            out.append({"e": "ExecCall", "x": "x%d" % e["call"]})
        elif n == "x.start":
            if e.get("callonly"):
                # the payload failed in its bare call: no coroutine, hence no place to check
                out.append({"e": "XStart", "x": "x%d" % e["call"], "tidc": {"asyncio": "main", "trio": "trio"}.get(e["flavour"], "other"), "loop": 1 if e["flavour"] in ("asyncio", "trio") else 0, "argsok": bool(e["argsok"])})
            else:
                out.append({"e": "XStart", "x": "x%d" % e["call"], "tidc": tidc(e), "loop": loopn(e), "argsok": bool(e["argsok"])})
        elif n == "x.end":
            out.append({"e": "XEnd", "x": "x%d" % e["call"]})
        elif n == "exec.ret":
            call = next((c for c in ev if c["e"] == "exec.call" and c["call"] == e["call"]), {})
            ctxp = str(call.get("ctx", ""))
            ctxf = c["flav"].get(ctxp.split(":", 1)[1]) if ctxp.startswith("payload:") else None
            started = any(x["e"] == "x.start" and x["call"] == e["call"] for x in ev)
            if e["got"] == "raise" and not started and ctxf in ("asyncio", "trio") and ctxf == call.get("flavour"):
                # refused: a coroutine payload asked its own flavour's loop for a blocking execute
                out.append({"e": "ExecRefused", "x": "x%d" % e["call"], "why": "same"})
            elif e["got"] == "raise" and not started:
                # refused without the payload ever starting: the runtime is going down (or gone)
                # and has no runner left for it
                out.append({"e": "ExecRefused", "x": "x%d" % e["call"], "why": "down"})
            elif e["got"] == "raise" and started and not any(x["e"] == "x.end" and x["call"] == e["call"] for x in ev[:i]):
                # the payload was running and has not ended: the runtime went down under it
                out.append({"e": "ExecAborted", "x": "x%d" % e["call"], "exc": str(e.get("exc", ""))})
            else:
                out.append({"e": "ExecRet", "x": "x%d" % e["call"], "same": bool(e["same"]), "got": e["got"], "exc": str(e.get("exc", "")), "flavour": str(call.get("flavour", ""))})
        elif n == "quiescent":
            out.append({"e": "Quiescent"})
        elif n == "timeout":
            out.append({"e": "Timeout", "what": str(e.get("what", "")), "p": str(e.get("p", ""))})
    if any(x["e"] == "Timeout" and x["what"] == "driver" for x in out) and not any(x["e"] == "Quiescent" for x in out):
        # the script could not be played to its end within the scenario's time limit (many
        # seconds): what has not happened by now is judged as it would be at quiescence
        out.append({"e": "Quiescent"})
    return c, out


# ------------------------------------------------------------------ validation
def validate(items, name):
    """items: list of (consts, events).  Groups by constants, one generated root module each."""
    groups = {}
    for i, (c, ev) in enumerate(items):
        groups.setdefault(json.dumps(c, sort_keys=True), []).append(i)
    verdicts = [None] * len(items)
    states = 0
    def one(arg):
        gi, (ck, idxs) = arg
        c = json.loads(ck)
        root = "RtTr"
        L = consts_module(c, root, "RuntimeTrace")
        L.append("====")
        consts = CONSTS_CFG + " AllowSigint = TRUE\n AllowShutdown = TRUE\n AllowSecond = TRUE"
        return idxs, traceval.validate("RuntimeTrace", [{"events": items[i][1]} for i in idxs], consts, timeout=1500, module_text="\n".join(L), root=root, name="%s-g%d" % (name, gi), parallel=max(2, min(12, len(idxs) // 40 + 1)))

    # one TLC process (at least) per group of constants: the groups are validated side by side
    with ThreadPoolExecutor(max_workers=10) as ex:
        for idxs, (vs, st) in ex.map(one, enumerate(sorted(groups.items()))):
            states += st
            for i, v in zip(idxs, vs):
                verdicts[i] = v
    return verdicts, states


# ------------------------------------------------------------------ a whole family, end to end
def run_family(ctx, shapes, *, names, allow, mc_invariants, mc_properties, per_shape, depth, extra_scenarios=(), label="rt", jitter=0.0015, script_hook=None):
    """shapes: list of base scenarios {payloads, services?, hows, ctx?, exec_payloads?, exec_hows?, ends}.
    For each: TLC model check (design) + TLC -simulate (behaviours) -> scripts -> real runs."""
    rnd = random.Random(ctx.seed)

    def mc(i):
        base = shapes[i]
        c = consts_of({"payloads": base["payloads"], "services": base.get("services", {}), "script": base["proto_script"]})
        r = model_check(c, "MC%s%d" % (label, i), mc_invariants, [] if base.get("mc_light") else mc_properties, allow=allow, workers=4)
        s, _ = simulate_scripts(c, "Sim%s%d" % (label, i), allow, num=per_shape * 3, depth=depth, seed=ctx.seed + i)
        return c, r, s

    import time as _t
    _tm = _t.time()
    with ThreadPoolExecutor(max_workers=6) as ex:
        results = list(ex.map(mc, range(len(shapes))))
    if os.environ.get("VP_TIMING"):
        print("TIMING %s model+simulate %d shapes %.1fs" % (label, len(shapes), _t.time() - _tm), file=sys.stderr)
    scenarios = []
    for i, (c, r, paths) in enumerate(results):
        ctx.model_must_hold("Runtime model %s shape %d" % (label, i), r)
        ctx.add_model_run("Runtime.tla/%s shape %d: %s" % (label, i, shapes[i].get("title", "")), r)
        rnd.shuffle(paths)
        # prefer behaviours in which something happens after accept
        paths.sort(key=lambda p: -sum(1 for a in p if a["a"] in ("end", "sigint", "shutdown", "execute")))
        for k, p in enumerate(paths[:per_shape]):
            base = shapes[i]
            scn = {
                "seed": ctx.seed * 1000 + i * 37 + k, "jitter": jitter if k % 2 else 0.0, "switchinterval": 1e-5 if k % 3 == 0 else 0,
                "payloads": base["payloads"], "services": base.get("services", {}),
                "script": script_of_path(p, base, rnd, base["hows"]), "shape": i, "src": "tlc-simulate",
            }
            if script_hook:
                scn["script"] = script_hook(base, scn["script"])
            scenarios.append(scn)
    for s in extra_scenarios:
        scenarios.append(dict(s, src="targeted"))
    ctx.extra["behaviours_replayed"] = ctx.extra.get("behaviours_replayed", 0) + len(scenarios)
    import time as _t
    _t0 = _t.time()
    raws = run_all(scenarios)
    ctx.extra["real_runs_wall_s"] = round(_t.time() - _t0, 1)
    if os.environ.get("VP_TIMING"):
        print("TIMING %s real runs %d scenarios %.1fs" % (label, len(scenarios), _t.time() - _t0), file=sys.stderr)
    _tv = _t.time()
    items, kept = [], []
    for scn, raw in zip(scenarios, raws):
        if raw.get("error"):
            raise tlc.MachineryError("runtime harness: %s\nscenario: %s" % (raw["error"], json.dumps(scn)[:1500]))
        if not raw.get("events"):
            # every script calls something: a run that recorded nothing was not a run
            raise tlc.MachineryError("runtime harness recorded no event at all\nscenario: %s" % json.dumps(scn)[:1500])
        c, ev = normalize(scn, raw)
        items.append((c, ev))
        kept.append(scn)
    verdicts, states = validate(items, label)
    ctx.extra["trace_states"] = ctx.extra.get("trace_states", 0) + states
    if os.environ.get("VP_TIMING"):
        print("TIMING %s validation %.1fs" % (label, _t.time() - _tv), file=sys.stderr)
    for scn, (c, ev), v in zip(kept, items, verdicts):
        ctx.traces_total += 1
        ctx.events_total += len(ev)
        mine = sorted({n for _, n in v.pv if n in names})
        if v.end and v.nc is None and not mine:
            ctx.traces_accepted += 1
        if v.nc is not None:
            ctx.traces_nc += 1
        for name in mine:
            idx = min(i for i, n in v.pv if n == name)
            ctx.add_violation(name, fingerprint(name, scn, ev, idx), describe(name, scn, ev, idx), {"scenario": scn}, detail={"events": ev})
        if v.nc is not None and os.environ.get("VP_DEBUG_DRIFT"):
            with open(os.environ["VP_DEBUG_DRIFT"], "a") as f:
                f.write(json.dumps({"nc": v.nc, "script": scn["script"], "events": ev}) + "\n")
        if v.nc is not None and not mine:
            ctx.add_drift("event %d %s is not a step of Runtime.tla (script %s)" % (v.nc[0], json.dumps(ev[v.nc[0] - 1]), json.dumps(scn["script"])[:300]), {"scenario": scn})
        ctx.note_distinct([scn.get("shape"), [(e["e"], e.get("p", e.get("x", ""))) for e in ev if e["e"] in ("End", "AcceptRet", "Cancelled", "Start", "ExecRet", "AdoptRet")]])
    ctx.samples = [{"script": kept[0]["script"], "events": items[0][1][:40]}, {"script": kept[-1]["script"], "events": items[-1][1][:40]}]
    return kept, items, verdicts


def fingerprint(name, scn, ev, idx):
    fp = {"invariant": name}
    e = ev[idx - 1] if 0 < idx <= len(ev) else {}
    if name in ("CleanupBeforeEnd", "NoStepAfterEnd", "TerminationObserved", "FailStopSafe", "CauseFaithful", "FailStopObserved"):
        ret = next((x for x in ev if x["e"] == "AcceptRet" and x.get("r") == 1), None)
        fp["accept_exc"] = ret.get("exc", "") if ret else "(still running)"
    if name in ("FailStopWhileStopping", "FailStopSafe", "CauseFaithful"):
        # did a payload interrupt (raise KeyboardInterrupt) AFTER another one had failed, while
        # the runtime was closing - and in which flavour?
        allp = {**scn["payloads"], **scn.get("services", {})}
        first_fail = next((i for i, x in enumerate(ev) if x["e"] == "End" and x.get("how") in ("val", "exc", "base")), None)
        late_kbd = [x["p"] for i, x in enumerate(ev) if first_fail is not None and i > first_fail and x["e"] == "End" and x.get("how") == "kbd"]
        fp["interrupted_while_closing"] = bool(late_kbd)
        if late_kbd:
            fp["interrupting_flavour"] = allp.get(late_kbd[0], {}).get("flavour", "")
    if name == "ExecOutcomeIdentity":
        # which exception type came back as another object, from which flavour's runner
        fp["exception"] = e.get("exc", "")
        fp["flavour"] = e.get("flavour", "")
    if name == "ShutdownDoesNotRaise":
        ret = next((x for x in ev if x["e"] == "ShutdownRet" and not x.get("ok", True)), {})
        fp["exception"] = ret.get("exc", "")
        # what the failing shutdown() raced with: a payload failure closing the runtime, or
        # another shutdown() that had not returned yet
        open_calls, overlapped = 0, False
        for x in ev:
            if x["e"] == "ShutdownCall" and not x.get("teardown"):
                open_calls += 1
                overlapped = overlapped or open_calls > 1
            elif x["e"] == "ShutdownRet":
                if not x.get("ok", True):
                    break
                open_calls = max(0, open_calls - 1)
        failed = any(x["e"] == "End" and x.get("how") in ("val", "exc", "base") for x in ev)
        fp.pop("exception", None)
        fp["raced"] = "failure" if failed else ("shutdown" if overlapped else "nothing")
    if name in ("ExecReturnsObserved", "AdoptReturnsObserved", "TerminationObserved"):
        # is an adopt() still waiting to return at the end of the trace (cross-flavour blocking)?
        calls = [x["p"] for x in ev if x["e"] == "AdoptCall"]
        rets = [x["p"] for x in ev if x["e"] == "AdoptRet"]
        fp["pending_adopt"] = sorted(set(calls) - set(rets)) != []
        fp["pending_execute"] = len([x for x in ev if x["e"] == "ExecCall"]) > len([x for x in ev if x["e"] == "ExecRet"])
    if name == "CleanupBeforeEnd":
        # which coroutine payloads were started but not finished when accept() ended, and were
        # they all adopted only after termination had been triggered?
        allp = {**scn["payloads"], **scn.get("services", {})}
        trig = next((i for i, x in enumerate(ev) if x["e"] in ("Sigint", "ShutdownCall") or (x["e"] == "End" and x.get("how") not in ("none",))), len(ev))
        end = next((i for i, x in enumerate(ev) if x["e"] == "AcceptRet" and x.get("r") == 1), len(ev))
        started, finished, adopted_at = set(), set(), {}
        for i, x in enumerate(ev[:end]):
            if x["e"] in ("AdoptCall", "SvcNew"):
                adopted_at[x["p"]] = i
            elif x["e"] == "Start":
                started.add(x["p"])
            elif x["e"] in ("End", "CleanupDone"):
                finished.add(x["p"])
            elif x["e"] == "Cancelled" and not (allp.get(x["p"], {}).get("cleanup", 0) + allp.get(x["p"], {}).get("shielded", 0)):
                finished.add(x["p"])
        open_ = [p for p in started - finished if allp.get(p, {}).get("flavour") != "threading"]
        fp["late_adopt"] = bool(open_) and all(adopted_at.get(p, -1) > trig for p in open_)
        # ... and who adopted them: somebody outside (a thread, a payload step) or the cleanup
        # of a payload that was being cancelled?
        src = {x["p"]: x.get("from", "outside") for x in ev if x["e"] == "AdoptCall"}
        fp["adopter"] = "cleanup" if any(src.get(p) == "cleanup" for p in open_) else "outside"
    if e.get("e") == "AdoptRet" and not e.get("ok", True):
        fp["exception"] = e.get("exc", "")
        p = e.get("p")
        fp["flavour"] = {**scn["payloads"], **scn.get("services", {})}.get(p, {}).get("flavour", "")
        # phase of the runtime when adopt raised
        phase = "running"
        for f in ev[:idx]:
            if f["e"] == "CloseBegin" and f.get("r") == 1:
                phase = "closing"
            if f["e"] == "AcceptRet" and f.get("r") == 1:
                phase = "ended"
            if f["e"] == "AcceptCall" and f.get("r") == 1:
                phase = "starting"
            if f["e"] == "RunningSet" and f.get("r") == 1:
                phase = "running"
        fp["phase"] = phase
    return fp


def describe(name, scn, ev, idx):
    tail = [e for e in ev[: idx + 1]][-12:]
    return "script %s: event %d violates %s; events up to it: %s" % (json.dumps(scn["script"])[:500], idx, name, json.dumps(tail)[:900])
