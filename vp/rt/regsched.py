"""Gate scheduler: force a behaviour of specs/Registration.tla onto the real MetaRunner.

Run as  python -m vp.rt.regsched  with a JSON list of jobs on stdin, prints a JSON list of
observations.  A job is {"flav": [flavour of submitter 1, 2, ..], "sched": ["main" | s, ...]}:
the sequence of threads that take a step.  A step lets exactly that thread run from the hook
it is parked at to its next hook (or to the end of its call), which is exactly one action of
the specification; every other controlled thread stays parked, the runner threads (trio
thread, payload threads) run freely.  After the last step all gates open; the process then
waits for the starts to settle and reports, per step, where the thread arrived, and at the
end what every adopt call did, how often every payload was started and in which flavour,
and whether accept() was still running.
"""
import asyncio
import json
import queue
import sys
import threading
import time

import trio

from vp import hooks

FLAVOURS = {"asyncio": asyncio, "trio": trio, "threading": threading}
MAIN_GATES = ("mr.launch.begin", "mr.launch.created", "mr.launched", "mr.running.set", "mr.unq.begin", "mr.reg.direct", "mr.unq.cleared", "mr.unq.end")
SUB_GATES = ("mr.reg.miss", "mr.reg.queue", "mr.reg.direct")
CLOSE_GATES = ("mr.aclose.begin", "mr.aclose.end", "mr.running.clear")
STOP_MAIN_GATES = ("mr.finally", "mr.running.clear")
SHUT_GATES = ("sr.shutdown.flag", "sr.shutdown.stop", "sr.shutdown.ret")
STEP_TIMEOUT = 5.0


def classify(exc):
    if exc is None:
        return "ok"
    if isinstance(exc, AssertionError):
        return "assertion"
    if isinstance(exc, RuntimeError) and "unknown runner" in str(exc):
        return "unknown_runner"
    if isinstance(exc, RuntimeError) and "Event loop is closed" in str(exc):
        return "loop_closed"
    return "%s:%s" % (type(exc).__name__, str(exc)[:80])


def run_job(job):
    from cobald.daemon.runners.service import ServiceRunner

    flav = job["flav"]
    hooks.reset(record=True)
    stop = threading.Event()
    runtime = ServiceRunner(accept_delay=0.01)

    def make(s, f):
        def rec():
            info = {}
            if f == "asyncio":
                try:
                    asyncio.get_running_loop()
                    info["in"] = "asyncio"
                except RuntimeError:
                    info["in"] = "?"
            elif f == "trio":
                try:
                    trio.lowlevel.current_trio_token()
                    info["in"] = "trio"
                except RuntimeError:
                    info["in"] = "?"
            else:
                info["in"] = "threading"
            hooks.emit("p.start", p=s, flavour=f, **info)

        if f == "asyncio":
            async def payload():
                rec()
                while not stop.is_set():
                    await asyncio.sleep(0.005)
        elif f == "trio":
            async def payload():
                rec()
                while not stop.is_set():
                    await trio.sleep(0.005)
        else:
            def payload():
                rec()
                stop.wait(20.0)
        return payload

    closing = bool(job.get("close"))
    stopping = bool(job.get("stop"))
    tags = {"main": CLOSE_GATES if closing else STOP_MAIN_GATES if stopping else MAIN_GATES, "shut": SHUT_GATES}
    for s in range(1, len(flav) + 1):
        tags["s%d" % s] = SUB_GATES
    gate = hooks.gate_on(tags)
    threads = {}
    results = {}
    main_end = {}

    def main_thread():
        hooks.name_thread("main")
        try:
            runtime.accept()
            main_end["exc"] = ""
        except BaseException as e:  # noqa: B036
            c = e.__cause__
            main_end["exc"] = "%s:%s" % (type(e).__name__, str(e)[:60])
            main_end["cause"] = "%s:%s" % (type(c).__name__, str(c)[:80]) if c is not None else ""
        gate.post("main", "end", dict(main_end))

    def sub_thread(s):
        tag = "s%d" % s
        hooks.name_thread(tag)
        exc = None
        try:
            got = runtime.adopt(make(s, flav[s - 1]), flavour=FLAVOURS[flav[s - 1]])
            if got is not None:
                exc = ValueError("adopt returned %r" % (got,))
        except BaseException as e:  # noqa: B036
            exc = e
        results[s] = classify(exc)
        gate.post(tag, "ret", {"res": results[s]})

    steps = []
    stuck = None
    main_parked = []
    fail_now = threading.Event()
    shut_end = {}

    def shut_thread():
        hooks.name_thread("shut")
        try:
            runtime.shutdown()
            shut_end["exc"] = ""
        except BaseException as e:  # noqa: B036
            shut_end["exc"] = "%s:%s" % (type(e).__name__, str(e)[:80])
        gate.post("shut", "ret", {"res": shut_end["exc"] or "ok"})

    if stopping:
        # Stopping.tla: the runtime is brought up undisturbed; "shut" steps drive a thread
        # inside ServiceRunner.shutdown(), main is gated where it leaves the running state
        t = threading.Thread(target=main_thread, daemon=True, name="main")
        threads["main"] = t
        t.start()
        if not runtime.running.wait(5.0):
            stuck = {"who": "startup", "after": 0}
        time.sleep(0.03)
    if closing:
        # Closing.tla: the runtime is brought up undisturbed (main is gated at the closing hooks
        # only) with one thread payload that fails when the schedule says "fail"
        class Boom(Exception):
            pass

        def failing():
            fail_now.wait(20.0)
            if not stop.is_set() or fail_now.is_set():
                raise Boom("scheduled failure")

        runtime.adopt(failing, flavour=threading)
        t = threading.Thread(target=main_thread, daemon=True, name="main")
        threads["main"] = t
        t.start()
        if not runtime.running.wait(5.0):
            stuck = {"who": "startup", "after": 0}
        time.sleep(0.03)
    for who in job["sched"]:
        if stuck:
            break
        tag = "main" if who in ("main", "fail") else "shut" if who == "shut" else "s%d" % who
        try:
            if who == "fail":
                fail_now.set()
            elif tag not in threads:
                target, args = (main_thread, ()) if who == "main" else (shut_thread, ()) if who == "shut" else (sub_thread, (who,))
                t = threading.Thread(target=target, args=args, daemon=True, name=tag)
                threads[tag] = t
                t.start()
            else:
                if stopping and who == "main" and not main_parked:
                    # main got to mr.finally on its own when the last runner was stopped
                    name, fields = gate.wait("main", STEP_TIMEOUT)
                    if name != "mr.finally":
                        stuck = {"who": who, "after": len(steps), "arrived": name}
                        break
                    main_parked.append(1)
                gate.go(tag)
            name, fields = gate.wait(tag, STEP_TIMEOUT)
        except queue.Empty:
            stuck = {"who": who, "after": len(steps)}
            break
        steps.append({"who": tag if tag in ("main", "shut") else int(tag[1:]), "at": name, "res": fields.get("res", ""), "exc": fields.get("exc", ""), "cause": fields.get("cause", ""), "flavour": fields.get("flavour", "")})
    # let everything run to the end of its call, then wait for the starts to settle
    hooks.gate_off()
    want = job.get("settle", 0.12)
    t0 = time.time()
    last = -1
    last_change = t0
    expect = job.get("expect_starts", 0)
    while time.time() - t0 < 3.0:
        n = sum(1 for e in hooks.snapshot() if e["e"] in ("p.start", "sr.svc.enter"))
        if n != last:
            last, last_change = n, time.time()
        # (settled: nothing new for a while - and, as long as fewer starts than the
        #  specification expects have been seen, not before the full three seconds are over)
        if time.time() - last_change >= want and n >= expect:
            break
        time.sleep(0.01)
    ev = hooks.snapshot()
    starts = {}
    wrong_flavour = []
    for e in ev:
        if e["e"] == "p.start":
            starts[str(e["p"])] = starts.get(str(e["p"]), 0) + 1
            if e["in"] != e["flavour"]:
                wrong_flavour.append(e["p"])
        elif e["e"] == "sr.svc.enter":
            starts["0"] = starts.get("0", 0) + 1
    accept_running = "main" in threads and threads["main"].is_alive() and not main_end
    obs = {"steps": steps, "stuck": stuck, "results": {str(k): v for k, v in results.items()}, "starts": starts, "wrong_flavour": wrong_flavour,
           "accept_running": accept_running, "main_end": dict(main_end), "shut_end": dict(shut_end)}
    # tear down
    stop.set()
    fail_now.set()
    if "main" in threads and threads["main"].is_alive():
        def down():
            try:
                runtime.shutdown()
            except BaseException:  # noqa: B036
                pass
        d = threading.Thread(target=down, daemon=True)
        d.start()
        d.join(1.5)
        if threads["main"].is_alive():
            try:
                runtime._meta_runner.stop()
            except BaseException:  # noqa: B036
                pass
        threads["main"].join(3.0)
        obs["teardown_ok"] = not threads["main"].is_alive()
    else:
        obs["teardown_ok"] = True
    for t in threads.values():
        t.join(1.0)
    return obs


def main():
    jobs = json.load(sys.stdin)
    out = []
    for job in jobs:
        try:
            o = run_job(job)
        except BaseException as e:  # noqa: B036
            o = {"error": "%s: %s" % (type(e).__name__, e)}
        out.append(o)
        if not o.get("teardown_ok", True):
            # a runtime that did not stop would hold the process-wide accept guard
            break
    json.dump(out, sys.stdout)
    sys.stdout.flush()
    import os

    os._exit(0)


if __name__ == "__main__":
    main()
