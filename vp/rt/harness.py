"""Scenario harness for the daemon runtime (C01, C02, C03, C10, C11, C12).

Run as  python -m vp.rt.harness  with a scenario (JSON) on stdin; prints the recorded trace
(JSON) on stdout.  One process per scenario: the accept guard is process-wide, and SIGINT goes
to the main thread, which is the thread that calls ServiceRunner.accept().

Payloads are *gated*: after recording their start they wait for commands from the driver
thread (coroutine payloads poll with short framework sleeps, thread payloads block on a
queue), so that the driver can force the order of all CONTROLLABLE actions of a behaviour -
API calls, payload steps, payload endings - while the runtime does its internal steps freely
(perturbed by the jitter of the hooks).  Every event is recorded through vp.hooks.emit, i.e.
into the same global sequence as the hooks inside the runner modules.
"""
import asyncio
import collections
import gc
import json
import os
import queue
import signal
import sys
import threading
import time

import trio

from vp import hooks

FLAVOURS = {"asyncio": asyncio, "trio": trio, "threading": threading}


class UserExc(Exception):
    pass


class UserExcSub(LookupError):
    pass


class UserBase(BaseException):
    pass


class FalsyExc(Exception):
    """an exception OBJECT that is falsy (e.g. a collection-like error with no items)"""

    def __bool__(self):
        return False

    def __len__(self):
        return 0


class Awaitable:
    """a legitimate return VALUE that happens to be awaitable"""

    def __await__(self):
        return iter(())


def dec(x):
    """JSON -> argument values: {"__tuple__": [..]} stands for a tuple (JSON has none)"""
    if isinstance(x, dict) and set(x) == {"__tuple__"}:
        return tuple(dec(v) for v in x["__tuple__"])
    if isinstance(x, dict):
        return {k: dec(v) for k, v in x.items()}
    if isinstance(x, list):
        return [dec(v) for v in x]
    return x


def make_outcome(how):
    """-> ("return", value) or ("raise", exception instance)"""
    kind, _, what = how.partition(":")
    if kind == "none":
        return ("return", None)
    if kind == "val":
        return ("return", {"0": 0, "0.0": 0.0, "False": False, "''": "", "[]": [], "()": (), "x": "x", "obj": object(), "1": 1, "awaitable": Awaitable(),
                           "excobj": UserExc("returned, not raised"), "baseobj": UserBase("returned, not raised")}[what])
    if how == "exc:Group1":
        # an exception group with a single member (what a nursery of the payload's own raises)
        return ("raise", ExceptionGroup("from payload", [UserExc("inner")]))
    if kind in ("exc", "base"):
        cls = {"LookupError": LookupError, "UserExc": UserExc, "UserExcSub": UserExcSub, "ValueError": ValueError, "RuntimeError": RuntimeError, "FalsyExc": FalsyExc, "TimeoutError": TimeoutError, "CancelledError": asyncio.CancelledError,
               "UserBase": UserBase, "SystemExit": SystemExit, "KeyboardInterrupt": KeyboardInterrupt, "GeneratorExit": GeneratorExit}[what]
        return ("raise", cls("from payload"))
    raise ValueError(how)


class Harness:
    def __init__(self, scn):
        self.scn = scn
        self.poll = scn.get("poll", 0.002)
        self.gates = {}  # payload id -> Gate
        self.outcomes = {}  # payload id -> outcome object (for identity checks)
        self.services = {}  # strong refs to service instances
        self.accept_go = threading.Event()
        self.accept_done = threading.Event()
        self.reaccept_go = threading.Event()
        self.reaccept_done = threading.Event()
        self.helpers = []
        self.exec_seq = 0
        from cobald.daemon.runners.service import ServiceRunner

        self.SR = ServiceRunner
        self.runtime = ServiceRunner(accept_delay=scn.get("accept_delay", 0.02))
        self.runtime2 = None

    # ------------------------------------------------------------ payloads
    def ctx_info(self, flavour):
        info = {"tid": threading.get_ident()}
        if flavour == "asyncio":
            try:
                info["loop"] = id(asyncio.get_running_loop())
            except RuntimeError:
                info["loop"] = 0
        elif flavour == "trio":
            try:
                info["loop"] = id(trio.lowlevel.current_trio_token())
            except RuntimeError:
                info["loop"] = 0
        else:
            info["loop"] = 0
        return info

    def gate(self, pid):
        g = self.gates.get(pid)
        if g is None:
            g = self.gates[pid] = {"cmds": collections.deque(), "q": queue.Queue(), "ack": queue.Queue()}
        return g

    def make_payload(self, pid, spec):
        """returns (callable, args, kwargs) to hand to adopt/execute"""
        flavour = spec["flavour"]
        h = self
        g = self.gate(pid)
        exp_args = tuple(dec(a) for a in spec.get("args", ()))
        exp_kwargs = {k: dec(v) for k, v in spec.get("kwargs", {}).items()}

        flags = {"pre": False}

        def started(args, kwargs):
            if flags["pre"]:
                flags["pre"] = False  # already recorded by the synchronous entry (plaincall)
                return
            info = h.ctx_info(flavour)
            hooks.emit("p.start", p=pid, flavour=flavour, argsok=(tuple(args) == exp_args and dict(kwargs) == exp_kwargs), **info)

        def do(cmd):
            """synchronous part of a command; returns ("continue",) or ("end", how)"""
            op = cmd["op"]
            if op == "step":
                hooks.emit("p.step", p=pid)
            elif op == "seg":
                # a synchronous section between two checkpoints (C11): non-atomic enter/exit
                hooks.emit("p.seg.enter", p=pid, flavour=flavour, **h.ctx_info(flavour))
                for _ in range(cmd.get("spin", 200)):
                    pass
                if cmd.get("adopt"):
                    # in the middle of the synchronous section (a read-modify-write, say) the
                    # payload hands another payload to the runtime: adopt() does not run it here
                    h.do_adopt(cmd["adopt"], "payload:" + pid)
                time.sleep(cmd.get("hold", 0.0))
                if cmd.get("adopt_after"):
                    # ... and hands over another one at the end of the section (others may have
                    # asked the runtime for something meanwhile)
                    h.do_adopt(cmd["adopt_after"], "payload:" + pid)
                hooks.emit("p.seg.exit", p=pid, flavour=flavour)
            elif op == "adopt":
                if cmd.get("own_loop") == "trio" and flavour == "threading":
                    # the thread payload runs a private trio loop of its own and adopts from inside it
                    async def private_trio():
                        h.do_adopt(cmd["target"], "owntrio:" + pid)
                        await trio.sleep(0.01)
                    trio.run(private_trio)
                elif cmd.get("own_loop") and flavour == "threading":
                    async def private():
                        h.do_adopt(cmd["target"], "ownloop:" + pid)
                        await asyncio.sleep(0.01)
                    asyncio.run(private())
                else:
                    h.do_adopt(cmd["target"], "payload:" + pid)
            elif op == "adopt_burst":
                # many adoptions in one synchronous step of this payload (no checkpoint between)
                for target in cmd["targets"]:
                    h.do_adopt(target, "payload:" + pid)
            elif op == "execute":
                if cmd.get("own_loop") == "trio" and flavour == "threading":
                    # from a worker thread (trio.to_thread) of the thread payload's private trio loop
                    async def private_trio():
                        await trio.to_thread.run_sync(lambda: h.do_execute(cmd["target"], "owntrio:" + pid, cmd["how"], cmd.get("slow", 0.0)))
                    trio.run(private_trio)
                elif cmd.get("own_loop") == "direct" and flavour == "threading":
                    # straight from a coroutine of the private loop (which it blocks meanwhile -
                    # its own business): the calling thread HAS a running loop, a foreign one
                    async def private_direct():
                        h.do_execute(cmd["target"], "ownloopdirect:" + pid, cmd["how"], cmd.get("slow", 0.0))
                        await asyncio.sleep(0)
                    asyncio.run(private_direct())
                elif cmd.get("own_loop") and flavour == "threading":
                    async def private():
                        await asyncio.get_running_loop().run_in_executor(None, lambda: h.do_execute(cmd["target"], "ownloop:" + pid, cmd["how"], cmd.get("slow", 0.0)))
                    asyncio.run(private())
                else:
                    h.do_execute(cmd["target"], "payload:" + pid, cmd["how"], cmd.get("slow", 0.0))
            elif op == "new_service":
                h.do_new_service(cmd["s"], "payload:" + pid)
            elif op == "end":
                return ("end", cmd["how"])
            return ("continue",)

        def finish(how):
            kind, val = make_outcome(how)
            h.outcomes[pid] = val
            hooks.emit("p.end", p=pid, how=how)
            g["ack"].put("end")
            if kind == "raise":
                raise val
            return val

        cleanup, shielded = spec.get("cleanup", 0), spec.get("shielded", 0)
        was_cancelled = []
        swallow = [spec.get("swallow", 0)]
        late_adopt = spec.get("adopt_in_cleanup")

        if spec.get("immediate"):
            # not a coroutine function: CALLING the payload already ends it (raises / returns)
            def payload(*args, **kwargs):
                if flavour == "threading":
                    hooks.name_thread("pth:" + pid)
                started(args, kwargs)
                return finish(spec["immediate"])
            payload.__name__ = payload.__qualname__ = "payload_" + pid
            return payload, exp_args, exp_kwargs

        if flavour == "asyncio":
            async def wait_cmd():
                while not g["cmds"]:
                    try:
                        await asyncio.sleep(0 if spec.get("spin") else h.poll)
                    except asyncio.CancelledError:
                        # a payload that swallows its first cancellation(s), e.g. a retry loop
                        if swallow[0] > 0:
                            swallow[0] -= 1
                            hooks.emit("p.cancel.swallowed", p=pid)
                            continue
                        raise

            async def payload(*args, **kwargs):
                started(args, kwargs)
                if spec.get("executor_job"):
                    # the payload has a blocking job of its own running in the loop's default
                    # executor (it outlives the payload: asyncio waits for it when the loop ends)
                    asyncio.get_running_loop().run_in_executor(None, time.sleep, spec["executor_job"])
                try:
                    while True:
                        await wait_cmd()
                        cmd = g["cmds"].popleft()
                        if cmd["op"] == "park":
                            # from now on the payload waits on an object nobody else knows of
                            # (no timer, no queue: only its own frame refers to what it awaits)
                            hooks.emit("p.step", p=pid)
                            g["ack"].put("park")
                            await asyncio.Event().wait()
                        r = do(cmd)
                        if r[0] == "end":
                            return finish(r[1])
                        g["ack"].put(cmd["op"])
                except asyncio.CancelledError:
                    hooks.emit("p.cancelled", p=pid)
                    was_cancelled.append(1)
                    if spec.get("on_cancel"):
                        # the payload answers its cancellation with an outcome of its own
                        return finish(spec["on_cancel"])
                    raise
                finally:
                    if late_adopt and was_cancelled:
                        h.do_adopt(late_adopt, "cleanup:" + pid)
                    if cleanup and was_cancelled:
                        for _ in range(cleanup):
                            hooks.emit("p.cleanup.step", p=pid)
                        hooks.emit("p.cleanup.done", p=pid)
        elif flavour == "trio":
            async def payload(*args, **kwargs):
                started(args, kwargs)
                try:
                    while True:
                        while not g["cmds"]:
                            await trio.sleep(0 if spec.get("spin") else h.poll)
                        cmd = g["cmds"].popleft()
                        if cmd["op"] == "park":
                            hooks.emit("p.step", p=pid)
                            g["ack"].put("park")
                            await trio.Event().wait()
                        r = do(cmd)
                        if r[0] == "end":
                            return finish(r[1])
                        g["ack"].put(cmd["op"])
                except trio.Cancelled:
                    hooks.emit("p.cancelled", p=pid)
                    was_cancelled.append(1)
                    if spec.get("on_cancel"):
                        return finish(spec["on_cancel"])
                    raise
                finally:
                    if late_adopt and was_cancelled:
                        h.do_adopt(late_adopt, "cleanup:" + pid)
                    if (cleanup or shielded) and was_cancelled:
                        for _ in range(cleanup):
                            hooks.emit("p.cleanup.step", p=pid)
                        if shielded:
                            with trio.CancelScope(shield=True):
                                for _ in range(shielded):
                                    await trio.sleep(h.poll)
                                    hooks.emit("p.cleanup.step", p=pid)
                        hooks.emit("p.cleanup.done", p=pid)
        else:
            def payload(*args, **kwargs):
                hooks.name_thread("pth:" + pid)
                started(args, kwargs)
                while True:
                    cmd = g["q"].get()
                    if cmd["op"] == "block":
                        hooks.emit("p.block", p=pid)
                        g["ack"].put("block")
                        threading.Event().wait()  # forever
                    r = do(cmd)
                    if r[0] == "end":
                        return finish(r[1])
                    g["ack"].put(cmd["op"])
        if spec.get("plaincall") and flavour in ("asyncio", "trio"):
            # not an ``async def``: a plain callable that does its first piece of work when it is
            # CALLED and hands back the coroutine for the rest - that first piece, too, belongs
            # into the flavour's own thread and loop
            coro_fn = payload

            def payload(*args, **kwargs):  # noqa: F811
                started(args, kwargs)
                flags["pre"] = True
                return coro_fn(*args, **kwargs)
        payload.__name__ = payload.__qualname__ = "payload_" + pid
        if spec.get("nomodule"):
            payload.__module__ = None  # e.g. a function made by exec() in a bare namespace
        return payload, exp_args, exp_kwargs

    def command(self, pid, cmd, wait=True, timeout=2.5):
        g = self.gate(pid)
        flavour = self.spec_of(pid)["flavour"]
        if flavour == "threading":
            g["q"].put(cmd)
        else:
            g["cmds"].append(cmd)
        if not wait:
            return True
        try:
            g["ack"].get(timeout=timeout)
            return True
        except queue.Empty:
            hooks.emit("timeout", what="command", p=pid, op=cmd["op"])
            return False

    def spec_of(self, pid):
        return self.scn["payloads"].get(pid) or self.scn.get("services", {}).get(pid)

    # ------------------------------------------------------------ API calls (any context)
    def do_adopt(self, pid, ctx, runtime=None):
        spec = self.spec_of(pid)
        fn, args, kwargs = self.make_payload(pid, spec)
        share = spec.get("same_callable")
        if share:
            # several payloads are ONE callable object handed to adopt() several times (without
            # arguments): every call of it is another payload
            if not hasattr(self, "shared"):
                self.shared = {}
            if share not in self.shared:
                todo = []

                def dispatcher():
                    return todo.pop(0)()
                dispatcher.todo = todo
                dispatcher.__name__ = dispatcher.__qualname__ = "payload_shared_" + share
                self.shared[share] = dispatcher
            self.shared[share].todo.append(fn)
            fn = self.shared[share]
        hooks.emit("adopt.call", p=pid, ctx=ctx, flavour=spec["flavour"])
        try:
            r = (runtime or self.runtime).adopt(fn, *args, flavour=FLAVOURS[spec["flavour"]], **kwargs)
        except BaseException as e:  # noqa
            hooks.emit("adopt.ret", p=pid, ctx=ctx, ok=False, exc=type(e).__name__)
            return
        hooks.emit("adopt.ret", p=pid, ctx=ctx, ok=(r is None), exc="")

    def do_execute(self, pid, ctx, how, slow=0.0):
        """execute() a payload that records its start and ends at once in the given way"""
        spec = self.spec_of(pid)
        flavour = spec["flavour"]
        self.exec_seq += 1
        call = self.exec_seq
        exp_args = tuple(dec(a) for a in spec.get("args", ()))
        exp_kwargs = {k: dec(v) for k, v in spec.get("kwargs", {}).items()}
        kind, val = make_outcome(how)
        h = self

        def body(args, kwargs):
            hooks.emit("x.end", p=pid, call=call, how=how)
            if kind == "raise":
                raise val
            return val

        def begin(args, kwargs):
            hooks.emit("x.start", p=pid, call=call, flavour=flavour, argsok=(tuple(args) == exp_args and dict(kwargs) == exp_kwargs), **h.ctx_info(flavour))

        if flavour == "threading":
            def payload(*args, **kwargs):
                begin(args, kwargs)
                time.sleep(slow)
                return body(args, kwargs)
        elif spec.get("plaincall"):
            # a plain callable: a failure happens in the CALL, before any coroutine exists
            def payload(*args, **kwargs):
                if kind == "raise":
                    # (where the bare call runs is nobody's promise: there is no coroutine yet)
                    hooks.emit("x.start", p=pid, call=call, flavour=flavour, callonly=True, argsok=(tuple(args) == exp_args and dict(kwargs) == exp_kwargs), **h.ctx_info(flavour))
                    return body(args, kwargs)

                async def rest():
                    begin(args, kwargs)
                    await (asyncio.sleep(slow) if flavour == "asyncio" else trio.sleep(slow))
                    return body(args, kwargs)
                return rest()
        elif flavour == "asyncio":
            async def payload(*args, **kwargs):
                begin(args, kwargs)
                await asyncio.sleep(slow)
                return body(args, kwargs)
        else:
            async def payload(*args, **kwargs):
                begin(args, kwargs)
                await trio.sleep(slow)
                return body(args, kwargs)
        nested = spec.get("nested")
        if nested:
            # the executed payload itself executes another payload (of another flavour) before
            # it ends: wrap the body
            inner_body = body

            def body(args, kwargs):  # noqa: F811
                h.do_execute(nested, "payload:" + pid, "val:x")
                return inner_body(args, kwargs)
        if spec.get("unhashable"):
            # a callable OBJECT without a hash (a dataclass instance with __call__, say)
            fn = payload

            class Callable_:
                __hash__ = None

                def __eq__(self, other):
                    return self is other

                def __call__(self, *a, **k):
                    return fn(*a, **k)
            payload = Callable_()
        hooks.emit("exec.call", p=pid, call=call, ctx=ctx, flavour=flavour)
        try:
            r = self.runtime.execute(payload, *exp_args, flavour=FLAVOURS[flavour], **exp_kwargs)
        except BaseException as e:  # noqa
            same = kind == "raise" and e is val
            hooks.emit("exec.ret", p=pid, call=call, ctx=ctx, got="raise", same=bool(same), exc=type(e).__name__)
            return
        hooks.emit("exec.ret", p=pid, call=call, ctx=ctx, got="return", same=bool(kind == "return" and r is val), exc="")

    def do_new_service(self, sid, ctx):
        from cobald.daemon.runners.service import service

        spec = self.scn["services"][sid]
        fn, _, _ = self.make_payload(sid, spec)
        flav = FLAVOURS[spec["flavour"]]
        falsy = spec.get("falsy", False)
        if spec.get("bad_run"):
            # a service that cannot even be adopted: looking up its run attribute fails (the
            # spec gives it "immediate": how).  It happens inside the service loop, a trio payload.
            creator = threading.get_ident()

            class Svc:
                @property
                def run(self):
                    if threading.get_ident() == creator:
                        return lambda: None  # the hasattr() check when the instance is made
                    return fn()
        elif spec["flavour"] == "threading":
            class Svc:
                def run(self):
                    return fn()
        else:
            class Svc:
                async def run(self):
                    return await fn()
        if falsy:
            Svc.__len__ = lambda self: 0
        Svc = service(flavour=flav)(Svc)
        sub = spec.get("sub")
        if sub == "nosuper":
            # a subclass of the service class with a constructor of its own that does not call
            # the parent's (the parent has none to speak of)
            class Sub(Svc):
                def __init__(self):
                    self.ready = True
            Svc = Sub
        elif sub == "redecorated":
            # ... or a subclass that is declared a service again (another flavour, say, or by habit)
            Svc = service(flavour=flav)(type("Sub", (Svc,), {}))
        self.services[sid] = Svc()
        hooks.emit("svc.new", s=sid, ctx=ctx, flavour=spec["flavour"])

    # ------------------------------------------------------------ main thread: accept
    def main_accept(self):
        hooks.name_thread("main")
        self.accept_go.wait()
        if self.scn.get("no_accept"):
            return
        hooks.emit("accept.call", r=1)
        if getattr(self, "pair_barrier", None) is not None:
            try:
                self.pair_barrier.wait(2.0)   # (the other first accept() starts at this very instant)
            except threading.BrokenBarrierError:
                pass
        try:
            self.runtime.accept()
        except BaseException as e:  # noqa
            hooks.emit("accept.ret", r=1, **self.describe_exception(e))
        else:
            hooks.emit("accept.ret", r=1, outcome="returned", exc="", cause_p="", cause_kind="")
        self.accept_done.set()
        if self.scn.get("reaccept"):
            self.reaccept_go.wait(10.0)
            if self.reaccept_go.is_set():
                self.nrunner = getattr(self, "nrunner", 1) + 1
                rn = self.nrunner
                hooks.emit("accept.call", r=rn, same_instance=True)
                try:
                    self.runtime.accept()
                except BaseException as e:  # noqa
                    hooks.emit("accept.ret", r=rn, **self.describe_exception(e))
                else:
                    hooks.emit("accept.ret", r=rn, outcome="returned", exc="", cause_p="", cause_kind="")
                self.reaccept_done.set()

    def describe_exception(self, e):
        """outcome of accept(): type, and what its cause (looking through groups) is"""
        out = {"outcome": "raised", "exc": type(e).__name__, "cause_p": "", "cause_kind": ""}
        from cobald.daemon.runners.base_runner import OrphanedReturn

        def leaves(x, depth=0):
            if x is None or depth > 6:
                return
            if isinstance(x, BaseExceptionGroup):
                for y in x.exceptions:
                    yield from leaves(y, depth + 1)
            else:
                yield x

        roots = [e.__cause__] if isinstance(e, RuntimeError) and e.__cause__ is not None else [e]
        found = []
        for root in roots:
            for leaf in leaves(root):
                for pid, val in self.outcomes.items():
                    if leaf is val:
                        found.append((pid, "exception"))
                    elif isinstance(leaf, OrphanedReturn) and getattr(leaf, "value", OrphanedReturn) is val:
                        found.append((pid, "orphan"))
                if not found:
                    out["cause_kind"] = "other:" + type(leaf).__name__
        if found:
            out["cause_p"], out["cause_kind"] = found[0]
        out["wrapped"] = isinstance(e, RuntimeError) and e.__cause__ is not None
        return out

    # ------------------------------------------------------------ driver thread: the script
    def helper(self, fn, name):
        t = threading.Thread(target=fn, name=name, daemon=True)
        self.helpers.append(t)
        t.start()
        return t

    def run_ctx(self, ctx, fn_direct, payload_cmd):
        """perform an API call in the given context"""
        if ctx.startswith("owntrio:"):
            self.command(ctx.split(":", 1)[1], dict(payload_cmd, own_loop="trio"))
        elif ctx.startswith("ownloopdirect:"):
            self.command(ctx.split(":", 1)[1], dict(payload_cmd, own_loop="direct"))
        elif ctx.startswith("ownloop:"):
            self.command(ctx.split(":", 1)[1], dict(payload_cmd, own_loop=True))
        elif ctx.startswith("payload:"):
            self.command(ctx.split(":", 1)[1], payload_cmd)
        elif ctx == "thread":
            t = self.helper(fn_direct, "caller")
            t.join(3.0)
        else:
            fn_direct()

    def drive(self):
        hooks.name_thread("driver")
        scn = self.scn
        for op in scn["script"]:
            o = op["op"]
            if self.accept_done.is_set() and not op.get("force") and o in ("adopt", "adopt_burst", "execute", "new_service", "step", "seg", "end", "block", "park_payload", "wait_start", "sigint", "polls"):
                # the runtime has ended: the rest of the behaviour cannot be played any more
                hooks.emit("skipped", op=o)
                continue
            if o == "adopt":
                self.run_ctx(op.get("ctx", "driver"), lambda: self.do_adopt(op["p"], op.get("ctx", "driver")), {"op": "adopt", "target": op["p"]})
            elif o == "adopt_burst":
                self.command(op["ctx"].split(":", 1)[1], {"op": "adopt_burst", "targets": op["ps"]}, timeout=8.0)
            elif o == "accept":
                self.accept_go.set()
            elif o == "wait_running":
                if not self.runtime.running.wait(3.0):
                    hooks.emit("timeout", what="wait_running")
                else:
                    hooks.emit("running.seen")
            elif o == "wait_start":
                self.wait_event(lambda e: e["e"] == "p.start" and e["p"] == op["p"], 2.0, "wait_start:" + op["p"])
            elif o in ("step", "seg"):
                self.command(op["p"], dict(op), wait=not op.get("nowait"))
            elif o == "end":
                self.command(op["p"], {"op": "end", "how": op["how"]})
            elif o == "block":
                self.command(op["p"], {"op": "block"})
            elif o == "park_payload":
                self.command(op["p"], {"op": "park"})
            elif o == "gc":
                # a cyclic garbage collection happens some time during the run
                gc.collect()
            elif o == "execute":
                if op.get("wait", True) is False and op.get("ctx", "driver").startswith("payload:"):
                    # the payload is told to execute (slowly) and the script goes on meanwhile
                    self.command(op["ctx"].split(":", 1)[1], {"op": "execute", "target": op["p"], "how": op["how"], "slow": op.get("slow", 0.0)}, wait=False)
                    time.sleep(0.05)
                elif op.get("wait", True) is False:
                    self.helper(lambda: self.do_execute(op["p"], "thread", op["how"], op.get("slow", 0.0)), "bg-executor")
                    time.sleep(0.05)
                else:
                    self.run_ctx(op.get("ctx", "driver"), lambda: self.do_execute(op["p"], op.get("ctx", "driver"), op["how"], op.get("slow", 0.0)), {"op": "execute", "target": op["p"], "how": op["how"]})
            elif o == "new_service":
                self.run_ctx(op.get("ctx", "driver"), lambda: self.do_new_service(op["s"], op.get("ctx", "driver")), {"op": "new_service", "s": op["s"]})
            elif o == "drop_service":
                self.services.pop(op["s"], None)
                gc.collect()
                hooks.emit("svc.drop", s=op["s"])
            elif o == "shutdown":
                def sd():
                    hooks.emit("shutdown.call", ctx=op.get("ctx", "thread"))
                    try:
                        self.runtime.shutdown()
                    except BaseException as e:  # noqa
                        hooks.emit("shutdown.ret", ok=False, exc=type(e).__name__)
                    else:
                        hooks.emit("shutdown.ret", ok=True, exc="")
                t = self.helper(sd, "shutdown-caller")
                if op.get("wait", True):
                    t.join(op.get("timeout", 4.0))
                    if t.is_alive():
                        hooks.emit("timeout", what="shutdown")
            elif o == "sigint":
                hooks.emit("sigint.send")
                os.kill(os.getpid(), signal.SIGINT)
            elif o == "second_accept":
                self.nrunner = getattr(self, "nrunner", 1) + 1
                rn = self.nrunner

                def acc2(rn=rn):
                    r2 = getattr(self, "pending2", None) or self.SR(accept_delay=0.02)
                    self.pending2 = None
                    self.runtime2 = r2
                    hooks.emit("accept.call", r=rn)
                    try:
                        r2.accept()
                    except BaseException as e:  # noqa
                        hooks.emit("accept.ret", r=rn, outcome="raised", exc=type(e).__name__, cause_p="", cause_kind="")
                    else:
                        hooks.emit("accept.ret", r=rn, outcome="returned", exc="", cause_p="", cause_kind="")
                t = self.helper(acc2, "accept2")
                t.join(op.get("timeout", 1.0))
            elif o == "accept_pair":
                # the FIRST two accept() calls of the process at (as nearly as possible) the same
                # instant: this runtime in the main thread, another runner in a helper thread
                self.nrunner = getattr(self, "nrunner", 1) + 1
                rn = self.nrunner
                r2 = self.SR(accept_delay=0.02)
                self.runtime2 = r2

                self.pair_barrier = threading.Barrier(2)

                def acc_pair(rn=rn, r2=r2):
                    self.accept_go.wait()
                    hooks.emit("accept.call", r=rn)
                    try:
                        self.pair_barrier.wait(2.0)
                    except threading.BrokenBarrierError:
                        pass
                    try:
                        r2.accept()
                    except BaseException as e:  # noqa
                        hooks.emit("accept.ret", r=rn, outcome="raised", exc=type(e).__name__, cause_p="", cause_kind="")
                    else:
                        hooks.emit("accept.ret", r=rn, outcome="returned", exc="", cause_p="", cause_kind="")
                self.helper(acc_pair, "accept2")
                time.sleep(0.01)
                self.accept_go.set()
                time.sleep(op.get("ms", 300) / 1000.0)
            elif o == "adopt2":
                # a payload given to ANOTHER ServiceRunner instance (the one the next second_accept
                # will try to run) before that one has ever accepted: it is that runner's business
                if getattr(self, "pending2", None) is None:
                    self.pending2 = self.SR(accept_delay=0.02)
                spec = self.spec_of(op["p"])
                fn, args, kwargs = self.make_payload(op["p"], spec)
                hooks.emit("adopt2.call", p=op["p"])
                self.pending2.adopt(fn, *args, flavour=FLAVOURS[spec["flavour"]], **kwargs)
            elif o == "reaccept_start":
                # the same ServiceRunner accepts again (second run); the script goes on
                self.reaccept_go.set()
                if not self.runtime.running.wait(3.0):
                    hooks.emit("timeout", what="wait_running")
            elif o == "reaccept_wait":
                if not self.reaccept_done.wait(op.get("timeout", 4.0)):
                    hooks.emit("timeout", what="accept", p="")
            elif o == "reaccept":
                self.reaccept_go.set()
                time.sleep(op.get("ms", 150) / 1000.0)
                hooks.emit("shutdown2.call")
                try:
                    self.runtime.shutdown()
                except BaseException as e:  # noqa
                    hooks.emit("shutdown2.ret", ok=False, exc=type(e).__name__)
                else:
                    hooks.emit("shutdown2.ret", ok=True, exc="")
                self.reaccept_done.wait(4.0)
            elif o == "shutdown2":
                if self.runtime2 is not None:
                    hooks.emit("shutdown2.call")
                    try:
                        self.runtime2.shutdown()
                    except BaseException as e:  # noqa
                        hooks.emit("shutdown2.ret", ok=False, exc=type(e).__name__)
                    else:
                        hooks.emit("shutdown2.ret", ok=True, exc="")
            elif o == "sleep":
                time.sleep(op["ms"] / 1000.0)
            elif o == "polls":
                # let the service loop poll at least n more times
                n0 = len([e for e in hooks.snapshot() if e["e"] == "sr.svc.poll"])
                self.wait_event(lambda e: False, 0.0, None)
                deadline = time.time() + 3.0
                while time.time() < deadline and len([e for e in hooks.snapshot() if e["e"] == "sr.svc.poll"]) < n0 + op["n"]:
                    time.sleep(0.005)
            elif o == "wait_end":
                if not self.accept_done.wait(op.get("timeout", 5.0)):
                    hooks.emit("timeout", what="accept")
            elif o == "park":
                hooks.park_at(op["point"], op.get("count", 1))
            elif o == "wait_park":
                if not hooks.wait_arrival(op["point"], op.get("timeout", 3.0)):
                    hooks.emit("timeout", what="park:" + op["point"])
            elif o == "release":
                hooks.release(op["point"])
            elif o == "race_adopts":
                # several threads adopt at (as nearly as possible) the same instant, optionally
                # together with the main thread entering accept()
                go = threading.Event()
                ths = []
                for pid in op["ps"]:
                    def one(pid=pid):
                        go.wait()
                        self.do_adopt(pid, "thread")
                    ths.append(self.helper(one, "racer-" + pid))
                time.sleep(0.005)
                go.set()
                if op.get("with_accept"):
                    self.accept_go.set()
                for t in ths:
                    t.join(3.0)
            elif o == "bg":
                # run the nested op in a helper thread without waiting (e.g. an adopt that will park)
                inner = op["inner"]
                self.helper(lambda: self.do_adopt(inner["p"], "thread"), "bg-caller")
            else:
                raise ValueError(o)
        # ---- teardown: observe quiescence, then make the runtime end if it has not
        # (on a heavily loaded machine a payload may take longer to start than the service loop
        #  takes to poll: as long as nothing in the script has triggered termination, everything
        #  adopt() accepted is given up to two more seconds to show up)
        calm = not any(op["op"] in ("shutdown", "sigint", "reaccept", "second_accept") or (op["op"] == "end" and op.get("how") != "none") for op in scn["script"]) \
            and not any(sp.get("immediate") or sp.get("bad_run") for sp in list(scn["payloads"].values()) + list(scn.get("services", {}).values()))
        if calm and self.accept_go.is_set() and not self.accept_done.is_set():
            deadline = time.time() + 2.0
            while time.time() < deadline:
                evs = hooks.snapshot()
                started = {e["p"] for e in evs if e["e"] == "p.start"}
                accepted = {e["p"] for e in evs if e["e"] == "adopt.ret" and e.get("ok")} | {e["s"] for e in evs if e["e"] == "svc.new"}
                if accepted <= started or self.accept_done.is_set():
                    break
                time.sleep(0.02)
        hooks.emit("quiescent")
        if self.accept_go.is_set() and not self.accept_done.is_set() and not self.scn.get("no_accept"):
            hooks.emit("teardown.begin")
            def sd():
                try:
                    self.runtime.shutdown()
                except BaseException:  # noqa
                    pass
            self.helper(sd, "teardown")
            if not self.accept_done.wait(4.0):
                hooks.emit("timeout", what="teardown")
        time.sleep(self.scn.get("linger", 0.25))
        hooks.emit("end.marker")

    def wait_event(self, pred, timeout, label):
        deadline = time.time() + timeout
        while time.time() < deadline:
            if any(pred(e) for e in hooks.snapshot()):
                return True
            time.sleep(0.003)
        if label:
            hooks.emit("timeout", what=label)
        return False


def main():
    # a check may have been started as a background job of a non-interactive shell: SIGINT is
    # then inherited as "ignored" and Python installs no KeyboardInterrupt handler - the ^C of
    # a scenario would never arrive
    signal.signal(signal.SIGINT, signal.default_int_handler)
    scn = json.load(sys.stdin)
    if scn.get("switchinterval"):
        sys.setswitchinterval(scn["switchinterval"])
    hooks.reset(record=True, jitter_seed=scn.get("seed", 0), jitter_max=scn.get("jitter", 0.0))
    import logging

    logging.disable(logging.CRITICAL)
    h = Harness(scn)
    crashed = []

    def drive():
        try:
            h.drive()
        except BaseException:  # noqa: a fault of the script or of this harness - never a verdict
            import traceback
            crashed.append(traceback.format_exc())

    driver = threading.Thread(target=drive, name="driver", daemon=True)
    done = threading.Lock()

    def dump_and_exit():
        with done:
            out = {"events": hooks.snapshot()}
            if crashed:
                out["error"] = "the scenario driver crashed: " + crashed[0][-1200:]
            json.dump(out, sys.stdout, default=str)
            sys.stdout.flush()
            os._exit(0)

    def watchdog():
        # the main thread may be stuck inside accept() for ever: the trace is still delivered
        driver.join(scn.get("timeout", 12.0))
        if driver.is_alive():
            hooks.emit("timeout", what="driver")
        dump_and_exit()

    driver.start()
    threading.Thread(target=watchdog, name="watchdog", daemon=True).start()
    h.main_accept()
    driver.join(scn.get("timeout", 12.0) + 2)
    dump_and_exit()


if __name__ == "__main__":
    main()
