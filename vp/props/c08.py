"""C08 - controllers move demand only in the documented direction and amount.

Specification: specs/Controllers.tla (+ ControllersTrace.tla); sixteenths for supply/demand,
quarters for everything else.  Per controller kind: TLC checks the formulas exhaustively over
all pool states of the grid and a family of parameter sets (thresholds incl. equality, rule and
slave tables in every declaration order); the state graph of a smaller family is emitted and
an edge cover is forced onto the real controller (regulate(), or one iteration of
Stepwise.run under a virtual clock); random multi-step histories on a wider grid are run too;
every recorded trace is validated by TLC.
"""
import itertools
import json
import random

from .. import core, graph, tlc, traceval
from ..fixtures import RecPool, OFFGRID, to_grid

NONE = -999999
INVARIANTS = [
    "OnlyDemandChanged", "LinearBound", "LinearDirection", "LinearExact", "RelativeExact",
    "OneRuleOnce", "RuleIsGreatestThresholdNotAbove", "RuleResultApplied",
    "OneSlaveOnce", "SlaveIsGreatestThresholdNotAbove", "SlavesActOnSwitchTarget",
]
DUMMY = " Supplies = {}\n Demands = {}\n Fits = {}\n Intervals = {}\n DemandBound = 0"


# ---------------------------------------------------------------- scenarios -> TLA+
def tla_int(n):
    return "(0 - %d)" % -n if n < 0 else str(n)


def tla_table(t):
    return "<<" + ", ".join('<<%d, "%s">>' % (thr, i) for thr, i in t) + ">>"


def tla_scn(s):
    k = s["kind"]
    if k == "linear":
        return '[kind |-> "linear", low |-> %d, high |-> %d, rate |-> %d]' % (s["low"], s["high"], s["rate"])
    if k == "relative":
        return '[kind |-> "relative", low |-> %d, high |-> %d, lscale |-> %d, hscale |-> %d]' % (s["low"], s["high"], s["lscale"], s["hscale"])
    if k == "stepwise":
        res = ", ".join("%s |-> %s" % (i, tla_int(v)) for i, v in sorted(s["res"].items()))
        return '[kind |-> "stepwise", rules |-> %s, base |-> "%s", res |-> [%s], iv |-> %d]' % (tla_table(s["rules"]), s["base"], res, s["iv"])
    if k == "switch":
        sr = ", ".join("%s |-> %d" % (i, v) for i, v in sorted(s["srate"].items()))
        return '[kind |-> "switch", slaves |-> %s, default |-> "%s", srate |-> [%s]]' % (tla_table(s["slaves"]), s["default"], sr)
    raise ValueError(k)


def mc_module(name, scns, dom, emit):
    L = ["---- MODULE %s ----" % name, "EXTENDS Controllers, Json"]
    for k in ("Supplies", "Demands", "Fits", "Intervals"):
        L.append("MC%s == {%s}" % (k, ", ".join(tla_int(x) for x in dom[k])))
    L.append("MCBound == %d" % dom["DemandBound"])
    L.append("MCScns == <<" + ",\n  ".join(tla_scn(s) for s in scns) + ">>")
    L.append(
        "MCInit == \\E i \\in 1..Len(MCScns) : \\E su \\in MCSupplies, d \\in MCDemands, u \\in MCFits, a \\in MCFits :\n"
        "    InitWith(MCScns[i], [supply |-> su, demand |-> d, util |-> u, alloc |-> a])"
    )
    # Stepwise has a fixed interval: only steps of that length exist for it
    L.append('MCNext == Next /\\ (act\'.name = "Step" /\\ scn.kind = "stepwise" => act\'.iv = scn.iv)')
    L.append("MCSpec == MCInit /\\ [][MCNext]_vars")
    if emit:
        L.append("View == <<scn, pool>>")
        L.append('Emit == PrintT(<<"EDGE", ToJson([f |-> View, a |-> [act |-> act\', called |-> called\'], t |-> View\'])>>)')
        L.append('EmitInit == act.name # "Init" \\/ PrintT(<<"INIT", ToJson(View)>>)')
    L.append("====")
    return "\n".join(L)


def mc_cfg(emit, invariants=True):
    cfg = "SPECIFICATION MCSpec\nCONSTANTS\n Supplies <- MCSupplies\n Demands <- MCDemands\n Fits <- MCFits\n Intervals <- MCIntervals\n DemandBound <- MCBound\nCONSTRAINT Bounded\n"
    if invariants:
        cfg += "".join("INVARIANT %s\n" % i for i in INVARIANTS)
    if emit:
        cfg += "VIEW View\nACTION_CONSTRAINT Emit\nCONSTRAINT EmitInit\n"
    return cfg


def tables(thresholds, ids, maxn):
    """all tables with 0..maxn distinct thresholds in every declaration order"""
    out = [[]]
    for n in range(1, maxn + 1):
        for thr in itertools.permutations(thresholds, n):
            out.append([[t, ids[i]] for i, t in enumerate(thr)])
    return out


def families(thorough):
    lin, rel, stp, sw = [], [], [], []
    for low, high in [(1, 1), (1, 3), (2, 2), (2, 3), (0, 4), (4, 4)]:
        for rate in ([1, 4, 6] if thorough else [1, 4]):
            lin.append({"kind": "linear", "low": low, "high": high, "rate": rate})
        for ls, hs in ([(2, 5), (3, 6), (2, 6)] if thorough else [(2, 6), (3, 5)]):
            rel.append({"kind": "relative", "low": low, "high": high, "lscale": ls, "hscale": hs})
    for t in tables([16, 32, 64], ["r1", "r2", "r3"], 3 if thorough else 2):
        for res in ({"r0": NONE, "r1": 0, "r2": 48, "r3": NONE}, {"r0": 16, "r1": NONE, "r2": 0, "r3": 32}):
            stp.append({"kind": "stepwise", "rules": t, "base": "r0", "res": res, "iv": 4})
    for t in tables([16, 32, 64], ["s1", "s2", "s3"], 3 if thorough else 2):
        sw.append({"kind": "switch", "slaves": t, "default": "s0", "srate": {"s0": 1, "s1": 2, "s2": 4, "s3": 8}})
    return {"linear": lin, "relative": rel, "stepwise": stp, "switch": sw}


MC_DOM = {"Supplies": [0, 16, 32, 64, 80], "Demands": [0, 16, 32, 48, 64], "Fits": [0, 1, 2, 3, 4], "Intervals": [2, 4], "DemandBound": 96}
MC_DOM_QUICK = {"Supplies": [0, 16, 32, 64], "Demands": [0, 16, 64], "Fits": [0, 1, 2, 3, 4], "Intervals": [4], "DemandBound": 64}
EMIT_DOM = {"Supplies": [0, 16, 32, 64], "Demands": [0, 16, 32, 64], "Fits": [0, 2, 4], "Intervals": [4], "DemandBound": 80}
EMIT_DOM_QUICK = {"Supplies": [0, 16, 32, 64], "Demands": [0, 32], "Fits": [0, 2, 4], "Intervals": [4], "DemandBound": 48}


# ---------------------------------------------------------------- driver
def build(scn, pool, log):
    from cobald.controller.linear import LinearController
    from cobald.controller.relative_supply import RelativeSupplyController
    from cobald.controller.stepwise import Stepwise
    from cobald.controller.switch import DemandSwitch

    k = scn["kind"]
    if k == "linear":
        # (a parameter that has its documented default value is left to the default)
        kw = {"low_utilisation": scn["low"] / 4, "high_allocation": scn["high"] / 4, "rate": scn["rate"] / 4}
        for name, default in (("low_utilisation", 0.5), ("high_allocation", 0.5), ("rate", 1)):
            if kw[name] == default:
                del kw[name]
        return LinearController(pool, **kw)
    if k == "relative":
        kw = {"low_utilisation": scn["low"] / 4, "high_allocation": scn["high"] / 4, "low_scale": scn["lscale"] / 4, "high_scale": scn["hscale"] / 4}
        for name, default in (("low_utilisation", 0.5), ("high_allocation", 0.5)):
            if kw[name] == default:
                del kw[name]
        return RelativeSupplyController(pool, **kw)
    if k == "stepwise":
        def mk(rid):
            def rule(p, interval):
                log.append((rid, p is pool and interval == scn["iv"] / 4))
                r = scn["res"][rid]
                return None if r == NONE else (r // 16 if r % 16 == 0 and rid in ("r1", "r2") else r / 16)
            return rule
        rules = [(thr / 16 if i % 2 else (thr // 16 if thr % 16 == 0 else thr / 16), mk(rid)) for i, (thr, rid) in enumerate(scn["rules"])]
        if scn.get("reals") is not None:
            rules = [(real_of(scn["reals"], thr), mk(rid)) for thr, rid in scn["rules"]]
        how = (len(scn["rules"]) + scn["iv"]) % 3
        if how == 0:
            return Stepwise(pool, mk(scn["base"]), *rules, interval=scn["iv"] / 4)
        # the decorator interface: a skeleton from the base rule, rules added one by one; a
        # template taken while the rules are still being registered must not freeze them
        from cobald.controller.stepwise import stepwise

        skeleton = stepwise(mk(scn["base"]))
        skeleton.s()
        for k, (thr, rule) in enumerate(rules):
            if k % 2:
                skeleton.add(supply=thr)(rule)
            else:
                skeleton.add(rule, supply=thr)
            skeleton.s(interval=1)
        if how == 1:
            return skeleton(pool, interval=scn["iv"] / 4)
        return skeleton.s(interval=scn["iv"] / 4) >> pool
    if k == "switch":
        class LoggingLinear(LinearController):
            def regulate(self, interval):
                log.append((self.sid, self.target is pool and interval == log.expected_interval))
                return super().regulate(interval)

        # a slave may come unbound (None), already bound to the switch's target, or bound to a
        # pool that EQUALS the target without being it (the constructor accepts all three): the
        # switch makes every one of them act on ITS target
        twin = EqPool(supply=pool._supply, demand=pool._demand, utilisation=pool._utilisation, allocation=pool._allocation, name="twin")
        order = sorted(scn["srate"])

        def mk(sid):
            bound = [None, pool, twin][(order.index(sid) + len(scn["slaves"])) % 3] if isinstance(pool, EqPool) else None
            c = LoggingLinear(bound, low_utilisation=0.5, high_allocation=0.5, rate=scn["srate"][sid] / 4)
            c.sid = sid
            return c
        flat = []
        for i, (thr, sid) in enumerate(scn["slaves"]):
            flat += [real_of(scn["reals"], thr) if scn.get("reals") is not None else thr / 16 if i % 2 else (thr // 16 if thr % 16 == 0 else thr / 16), mk(sid)]
        return DemandSwitch(pool, mk(scn["default"]), *flat)
    raise ValueError(k)


class CallLog(list):
    expected_interval = None


class EqPool(RecPool):
    """pools that compare equal to each other (a pool type with value equality)"""

    def __eq__(self, other):
        return isinstance(other, EqPool)

    def __hash__(self):
        return 7


def real_of(reals, v):
    """rank scenarios: the model's value 16 * r stands for the r-th of an ascending list of
    arbitrary floats (neighbouring floats, one ulp apart, among them): only ORDER matters to
    the selection of a rule or slave, and order is all the model is told"""
    return reals[v // 16]


def rank_of(reals, x):
    for r, y in enumerate(reals):
        if x == y and type(x) is type(y):
            return 16 * r
    return OFFGRID


def observe(pool, reals=None, ranked=None):
    out = {"supply": to_grid(pool._supply, 16), "demand": to_grid(pool._demand, 16), "util": to_grid(pool._utilisation, 4), "alloc": to_grid(pool._allocation, 4)}
    if reals is not None:
        out[ranked] = rank_of(reals, getattr(pool, "_" + ranked))
    return out


def apply_set(pool, attr, v, reals=None, ranked=None):
    if reals is not None and attr == ranked:
        setattr(pool, "_" + attr, real_of(reals, v))
    elif attr == "supply":
        pool._supply = v / 16
    elif attr == "demand":
        pool._demand = v / 16 if v % 16 else v // 16
    elif attr == "util":
        pool._utilisation = v / 4
    elif attr == "alloc":
        pool._allocation = v / 4


def execute(case):
    """case: {scn, pool:{supply,demand,util,alloc}, ops:[{e:"Step",iv}|{e:"Set",attr,v}]}"""
    scn, p0 = case["scn"], case["pool"]
    reals, ranked = case.get("reals"), case.get("ranked")
    cls = EqPool if scn["kind"] == "switch" and (len(case["ops"]) + p0["util"]) % 2 else RecPool
    pool = cls(supply=p0["supply"] / 16, demand=p0["demand"] / 16, utilisation=p0["util"] / 4, allocation=p0["alloc"] / 4)
    if reals is not None:
        setattr(pool, "_" + ranked, real_of(reals, p0[ranked]))
    log = CallLog()
    events = []
    raised = []

    def step_event(iv):
        calls = list(log)
        del log[:]
        # (a step that raised is a step in which nothing was called the way it should have been)
        events.append({"e": "Step", "iv": iv, "p": observe(pool, reals, ranked), "called": [c[0] for c in calls], "argsok": all(c[1] for c in calls) and not raised, "raised": ",".join(raised)})
        del raised[:]

    try:
        ctrl = build(dict(scn, reals=reals) if reals is not None else scn, pool, log)
    except Exception as ex:  # noqa: a controller that cannot even be built with legal parameters
        raised.append("build:" + type(ex).__name__)
        step_event(next((op["iv"] for op in case["ops"] if op["e"] == "Step"), 4))
        return {"scn": scn, "pool": p0, "events": events}

    if scn["kind"] != "stepwise":
        for op in case["ops"]:
            if op["e"] == "Set":
                apply_set(pool, op["attr"], op["v"], reals, ranked)
                events.append(dict(op))
            else:
                log.expected_interval = op["iv"] / 4
                try:
                    ctrl.regulate(op["iv"] / 4)
                except Exception as ex:  # noqa: regulate() has no documented way to fail
                    raised.append(type(ex).__name__)
                step_event(op["iv"])
    else:
        # Stepwise has no regulate(): run() is driven under a virtual clock, exactly one
        # iteration per Step op (the script sits half an interval off the service's wake-ups)
        import trio
        import trio.testing

        iv = scn["iv"] / 4

        async def main():
            ops = list(case["ops"])
            async with trio.open_nursery() as nursery:
                started = False
                for op in ops:
                    if op["e"] == "Set":
                        apply_set(pool, op["attr"], op["v"], reals, ranked)
                        events.append(dict(op))
                    else:
                        if not started:
                            nursery.start_soon(ctrl.run)
                            started = True
                            await trio.sleep(iv / 2)
                        else:
                            await trio.sleep(iv)
                        step_event(op["iv"])
                nursery.cancel_scope.cancel()

        try:
            trio.run(main, clock=trio.testing.MockClock(autojump_threshold=0))
        except Exception as ex:  # noqa: run() ended by an exception of the service
            raised.append(type(ex).__name__)
            step_event(scn["iv"])
    return {"scn": scn, "pool": p0, "events": events}


def case_of_path(init, acts):
    scn, pool = init
    ops = []
    for a in acts:
        if a["act"]["name"] == "Step":
            ops.append({"e": "Step", "iv": a["act"]["iv"]})
    return scn, pool, ops


def random_case(rnd, fams):
    kind = rnd.choice(["linear", "relative", "stepwise", "switch"])
    if kind == "linear":
        low = rnd.randrange(0, 5)
        scn = {"kind": "linear", "low": low, "high": rnd.randrange(low, 5), "rate": rnd.choice([1, 2, 3, 4, 6, 10])}
    elif kind == "relative":
        low = rnd.randrange(0, 5)
        scn = {"kind": "relative", "low": low, "high": rnd.randrange(low, 5), "lscale": rnd.choice([1, 2, 3]), "hscale": rnd.choice([5, 6, 8])}
    elif kind == "stepwise":
        n = rnd.randrange(0, 5)
        thr = rnd.sample([8, 16, 24, 32, 64, 100], n)
        ids = ["r%d" % (i + 1) for i in range(n)]
        res = {i: rnd.choice([NONE, 0, 16, 24, 48, 160]) for i in ids + ["r0"]}
        scn = {"kind": "stepwise", "rules": [[t, i] for t, i in zip(thr, ids)], "base": "r0", "res": res, "iv": rnd.choice([1, 2, 4, 6])}
    else:
        n = rnd.randrange(0, 5)
        thr = rnd.sample([0, 8, 16, 24, 32, 64, 100], n)
        ids = ["s%d" % (i + 1) for i in range(n)]
        scn = {"kind": "switch", "slaves": [[t, i] for t, i in zip(thr, ids)], "default": "s0", "srate": {i: rnd.choice([1, 2, 4, 8, 12]) for i in ids + ["s0"]}}
    sup = [0, 8, 16, 24, 32, 48, 64, 100, 128]
    pool = {"supply": rnd.choice(sup), "demand": rnd.choice([0, 8, 16, 24, 32, 64, 100]), "util": rnd.randrange(0, 5), "alloc": rnd.randrange(0, 5)}
    ops = []
    for _ in range(rnd.randrange(3, 14)):
        c = rnd.random()
        if c < 0.5:
            ops.append({"e": "Step", "iv": scn["iv"] if kind == "stepwise" else rnd.choice([1, 2, 4, 6, 8, 0])})
        else:
            attr = rnd.choice(["supply", "demand", "util", "alloc"])
            v = rnd.choice(sup) if attr in ("supply", "demand") else rnd.randrange(0, 5)
            ops.append({"e": "Set", "attr": attr, "v": v})
    case = {"scn": scn, "pool": pool, "ops": ops}
    if kind in ("switch", "stepwise") and rnd.random() < 0.3:
        rank_variant(rnd, case)
    return case


def rank_variant(rnd, case):
    """thresholds and the compared quantity (a switch compares demand, a stepwise controller
    supply) become arbitrary floats of which the model only knows the order; neighbouring
    floats - one ulp apart - are among them.  Nothing may do arithmetic on the ranked quantity:
    the slaves of a switch are kept in their neutral zone (they leave demand alone)"""
    import math

    scn, kind = case["scn"], case["scn"]["kind"]
    R = 12
    x = rnd.choice([0.8, 0.1, 0.7 + 0.1, 3.0, 1e9 + 0.5, 1e-9, 123456.789])
    reals = [x]
    for _ in range(R - 1):
        x = math.nextafter(x, math.inf) if rnd.random() < 0.7 else x * rnd.choice([1.0000000001, 1.5, 2.0])
        if x <= reals[-1]:
            x = math.nextafter(reals[-1], math.inf)
        reals.append(x)
    key = "slaves" if kind == "switch" else "rules"
    ranks = rnd.sample(range(R), len(scn[key]))
    scn[key] = [[16 * r, i] for r, (_, i) in zip(ranks, scn[key])]
    ranked = "demand" if kind == "switch" else "supply"
    case["pool"][ranked] = 16 * rnd.randrange(R)
    if kind == "switch":
        case["pool"]["util"], case["pool"]["alloc"] = rnd.choice([2, 3, 4]), rnd.choice([0, 1, 2])
    ops = []
    for op in case["ops"]:
        if op["e"] == "Set":
            if kind == "switch" and op["attr"] in ("util", "alloc"):
                continue
            op = {"e": "Set", "attr": ranked, "v": 16 * rnd.randrange(R)} if op["attr"] in (ranked, "util", "alloc") else op
        ops.append(op)
    case["ops"] = ops
    case["reals"], case["ranked"] = reals, ranked


def dedupe_sets(case):
    """drop Set ops that do not change the attribute (the spec's Set requires a change)"""
    cur = dict(case["pool"])
    ops = []
    for op in case["ops"]:
        if op["e"] == "Set":
            if cur.get(op["attr"]) == op["v"]:
                continue
            cur[op["attr"]] = op["v"]
        else:
            cur["demand"] = None  # unknown after a step
        ops.append(op)
    return dict(case, ops=ops)


def judge(ctx, cases, traces, verdicts):
    for case, tr, v in zip(cases, traces, verdicts):
        ctx.traces_total += 1
        ctx.events_total += len(tr["events"])
        if v.accepted:
            ctx.traces_accepted += 1
        if v.nc is not None:
            ctx.traces_nc += 1
        for idx, name in v.pv:
            ctx.add_violation(name, {"invariant": name, "kind": tr["scn"]["kind"]}, "%s pool=%s: event %d %s violates %s" % (json.dumps(tr["scn"]), tr["pool"], idx, json.dumps(tr["events"][idx - 1]), name), case, detail={"trace": tr, "event_index": idx})
        if v.nc is not None and not v.pv:
            ctx.add_drift("event %d %s of %s is not a step of Controllers.tla" % (v.nc[0], json.dumps(tr["events"][v.nc[0] - 1]), json.dumps(tr["scn"])), case)
        prevd = tr["pool"]["demand"]
        for e in tr["events"]:
            if e["e"] == "Step":
                if e["p"]["demand"] != prevd or e["called"]:
                    ctx.note_distinct([tr["scn"], prevd, e])
                prevd = e["p"]["demand"]
            elif e["attr"] == "demand":
                prevd = e["v"]


def run(ctx):
    thorough = ctx.tier == "thorough"
    rnd = random.Random(ctx.seed)
    fams = families(thorough)
    cases = []
    from concurrent.futures import ThreadPoolExecutor

    mc_dom = MC_DOM if thorough else MC_DOM_QUICK
    em_dom = EMIT_DOM if thorough else EMIT_DOM_QUICK
    picks = {kind: (scns if thorough else rnd.sample(scns, min(len(scns), 4))) for kind, scns in fams.items()}

    def model(kind):
        return tlc.run("MCCtl_" + kind, mc_cfg(False), module_text=mc_module("MCCtl_" + kind, fams[kind], mc_dom, False), timeout=3000, workers=4)

    def emit(kind):
        return tlc.run("MCCtlE_" + kind, mc_cfg(True, invariants=False), module_text=mc_module("MCCtlE_" + kind, picks[kind], em_dom, True), workers=1, timeout=3000, heap="6g")

    with ThreadPoolExecutor(max_workers=8) as ex:
        mres = dict(zip(fams, ex.map(model, fams)))
        eres = dict(zip(fams, ex.map(emit, fams)))
    for kind, scns in fams.items():
        res = mres[kind]
        ctx.model_must_hold("Controllers model " + kind, res)
        ctx.add_model_run("Controllers.tla/%s: %d parameter sets" % (kind, len(scns)), res)
        res = eres[kind]
        tlc.require_ok(res, "Controllers emission " + kind)
        g = graph.from_prints(res.prints)
        paths, left = graph.edge_cover_paths(g, max_len=50, seed=ctx.seed, budget_edges=None if thorough else 12000)
        ctx.extra["graph_edges_" + kind] = g.nedges
        ctx.extra["edges_not_replayed_" + kind] = left
        for init, acts, exps in paths:
            scn, pool = init
            ops = []
            for a, t in zip(acts, exps):
                if a["act"]["name"] == "Step":
                    ops.append({"e": "Step", "iv": a["act"]["iv"]})
                else:
                    ops.append({"e": "Set", "attr": a["act"]["attr"], "v": a["act"]["v"]})
            cases.append({"scn": scn, "pool": pool, "ops": ops, "src": "tlc-edge-cover"})
    ctx.extra["behaviours_replayed"] = len(cases)
    for _ in range(8000 if thorough else 1500):
        cases.append(dict(dedupe_sets(random_case(rnd, fams)), src="random"))
    traces = [execute(c) for c in cases]
    verdicts, tstates = traceval.validate("ControllersTrace", traces, DUMMY, timeout=3000)
    ctx.extra["trace_states"] = tstates
    judge(ctx, cases, traces, verdicts)
    ctx.samples = [traces[0], traces[-1]]
    ctx.extra["rule"] = "cases = edge-cover paths of the TLC-emitted graphs (per controller kind) + random histories of steps and single-attribute pool changes; distinct non-trivial = distinct (parameters, demand before, observed step) where demand changed or a rule/slave was called"
    ctx.assumptions = [
        "supply/demand on a 1/16 grid, fitness/thresholds/scales/rate/interval on a 1/4 grid (exact floats)",
        "rule and slave tables have distinct thresholds (the constructors reject / cannot sort duplicates); Stepwise thresholds > 0 (0 is rejected by RangeSelector); supply >= 0",
        "DemandSwitch slaves are LinearControllers (subclassed only to log the delegation); Stepwise is stepped by running run() under trio's MockClock",
    ]


def replay(ctx, payload):
    c = payload["case"]
    t = execute(c)
    verdicts, _ = traceval.validate("ControllersTrace", [t], DUMMY)
    judge(ctx, [c], [t], verdicts)
    ctx.samples = [t]
    ctx.level = "exploration"
    ctx.distinct.update({"replay-a", "replay-b"})
