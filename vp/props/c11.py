"""C11 - coroutine payloads of one flavour never run in parallel.

Runtime.tla / RuntimeTrace.tla; shapes = mixes of adopted, service and executed coroutine
payloads per flavour submitted from every context, with synchronous sections (enter / exit
events around a busy stretch) commanded concurrently, and a thread payload that blocks.
"""
import itertools
import random

from ..rt import scen
from .rtcommon import HOWS, RT_ASSUMPTIONS, make_replay

NAMES = ["RightFlavour", "ExecRightFlavour", "NoOverlap", "BlockingDoesNotStall"]
replay = make_replay(NAMES)


def shapes(thorough, rnd):
    out = []
    for n, f in enumerate(["asyncio", "trio"] * (2 if thorough else 1)):
        other = "trio" if f == "asyncio" else "asyncio"
        # (c2 and o1 are plain callables that work a little when CALLED and return their coroutine:
        #  they are adopted from threads and from payloads of the other flavour)
        payloads = {"c1": {"flavour": f}, "c2": {"flavour": f, "cleanup": 1, "plaincall": True}, "o1": {"flavour": other, "plaincall": True}, "h1": {"flavour": "threading"}, "x1p": {"flavour": f}}
        services = {"s1": {"flavour": f}}
        proto = [{"op": "adopt", "p": "c1"}, {"op": "adopt", "p": "h1"}, {"op": "accept"}, {"op": "execute", "p": "x1p", "how": "none"}]
        ctx = {"c2": ["thread", "payload:h1", "payload:o1", "payload:c1"], "o1": ["thread", "payload:c1"]}
        out.append({"title": "same-flavour coroutines (%s)" % f, "payloads": payloads, "services": services, "proto_script": proto, "hows": {p: HOWS for p in list(payloads) + list(services)}, "ctx": ctx,
                    "svc_ctx": ["driver", "thread", "payload:h1"], "exec_payloads": ["x1p"], "exec_hows": ["none", "val:x"], "exec_ctx": ["driver", "thread", "payload:h1", "payload:o1"], "flav": f})
    return out


def fix_script(base, script):
    """turn the steps of coroutine payloads into synchronous sections commanded without waiting
    (so that two of them are pending at the same time), then block a thread payload and ask the
    coroutine payloads for further steps"""
    f = base["flav"]
    allp = {**base["payloads"], **base.get("services", {})}
    out = []
    started = set()
    for o in script:
        if o["op"] == "wait_start":
            started.add(o["p"])
        if o["op"] == "step" and allp[o["p"]]["flavour"] == f:
            out.append({"op": "seg", "p": o["p"], "hold": 0.002})
        elif o["op"] == "polls":
            continue
        else:
            out.append(o)
    cor = [p for p in sorted(started) if allp[p]["flavour"] in ("asyncio", "trio")]
    # concurrent sections: command all of them before waiting for any
    tail = []
    if "h1" in started:
        tail += [{"op": "block", "p": "h1"}]
    tail += [{"op": "seg", "p": p, "hold": 0.003} for p in cor] + [{"op": "step", "p": p} for p in cor]
    return out + tail + [{"op": "polls", "n": 2}]


def run(ctx):
    thorough = ctx.tier == "thorough"
    rnd = random.Random(ctx.seed)
    sh = shapes(thorough, rnd)
    for s in sh:
        s["mc_light"] = True
    extra = []
    # execute() of a coroutine payload from a thread payload while the runtime is closing (the
    # runner already counts as stopped, its payloads are still being cancelled)
    for f in ("asyncio", "trio"):
        for ms in (5, 30, 60):
            extra.append({"seed": ctx.seed, "jitter": 0.0, "payloads": {"c1": {"flavour": f, "cleanup": 2, "shielded": 2 if f == "trio" else 0}, "c2": {"flavour": f, "cleanup": 1}, "h1": {"flavour": "threading"}, "x1p": {"flavour": f}},
                          "script": [{"op": "adopt", "p": "c1"}, {"op": "adopt", "p": "c2"}, {"op": "adopt", "p": "h1"}, {"op": "accept"}, {"op": "wait_running"}, {"op": "wait_start", "p": "c1"}, {"op": "wait_start", "p": "c2"}, {"op": "wait_start", "p": "h1"},
                                     {"op": "shutdown", "ctx": "thread", "wait": False}, {"op": "sleep", "ms": ms}, {"op": "execute", "p": "x1p", "ctx": "payload:h1", "how": "val:x"}, {"op": "wait_end"}], "shape": "targeted-execute-while-closing"})
    # an asyncio payload adopted from a thread payload that runs its own private event loop
    for k in range(2):
        extra.append({"seed": ctx.seed + k, "jitter": 0.0, "payloads": {"c1": {"flavour": "asyncio"}, "h1": {"flavour": "threading"}, "late": {"flavour": "asyncio"}, "late2": {"flavour": "asyncio"}},
                      "script": [{"op": "adopt", "p": "c1"}, {"op": "adopt", "p": "h1"}, {"op": "accept"}, {"op": "wait_running"}, {"op": "wait_start", "p": "c1"}, {"op": "wait_start", "p": "h1"},
                                 {"op": "adopt", "p": "late", "ctx": "ownloop:h1"}, {"op": "wait_start", "p": "late"}, {"op": "seg", "p": "late", "hold": 0.002}, {"op": "seg", "p": "c1", "hold": 0.002},
                                 {"op": "adopt", "p": "late2", "ctx": "ownloop:h1"}, {"op": "wait_start", "p": "late2"}, {"op": "step", "p": "late2"}, {"op": "polls", "n": 2}], "shape": "targeted-adopt-from-private-loop"})
    # a coroutine payload adopts another payload of ITS flavour in the middle of a synchronous
    # section: the adopted payload does not run before the section is over
    for f in ("asyncio", "trio"):
        extra.append({"seed": ctx.seed, "jitter": 0.0, "payloads": {"c1": {"flavour": f}, "c2": {"flavour": f}, "late": {"flavour": f}, "late2": {"flavour": f, "plaincall": True}},
                      "script": [{"op": "adopt", "p": "c1"}, {"op": "adopt", "p": "c2"}, {"op": "accept"}, {"op": "wait_running"}, {"op": "wait_start", "p": "c1"}, {"op": "wait_start", "p": "c2"},
                                 {"op": "seg", "p": "c1", "hold": 0.01, "adopt": "late"}, {"op": "wait_start", "p": "late"}, {"op": "seg", "p": "c2", "hold": 0.01, "adopt": "late2"}, {"op": "wait_start", "p": "late2"},
                                 {"op": "seg", "p": "late", "hold": 0.002}, {"op": "step", "p": "late2"}, {"op": "step", "p": "c1"}, {"op": "polls", "n": 2}], "shape": "targeted-adopt-inside-section"})
    # execute() from a worker thread of a thread payload's PRIVATE loop (trio.to_thread /
    # run_in_executor): the executed coroutine payload still runs in the runtime's own loop
    extra.append({"seed": ctx.seed, "jitter": 0.0, "payloads": {"c1": {"flavour": "asyncio"}, "t1": {"flavour": "trio"}, "h1": {"flavour": "threading"},
                                                               "x1p": {"flavour": "trio"}, "x2p": {"flavour": "asyncio"}, "x3p": {"flavour": "trio"}, "x4p": {"flavour": "asyncio"}},
                  "script": [{"op": "adopt", "p": "c1"}, {"op": "adopt", "p": "t1"}, {"op": "adopt", "p": "h1"}, {"op": "accept"}, {"op": "wait_running"}, {"op": "wait_start", "p": "c1"}, {"op": "wait_start", "p": "t1"}, {"op": "wait_start", "p": "h1"},
                             {"op": "execute", "p": "x1p", "ctx": "owntrio:h1", "how": "val:x"}, {"op": "execute", "p": "x2p", "ctx": "owntrio:h1", "how": "val:1"},
                             {"op": "execute", "p": "x3p", "ctx": "ownloop:h1", "how": "exc:UserExc"}, {"op": "execute", "p": "x4p", "ctx": "ownloop:h1", "how": "val:x"},
                             {"op": "seg", "p": "t1", "hold": 0.002}, {"op": "step", "p": "c1"}, {"op": "polls", "n": 2}], "shape": "targeted-execute-from-private-loop-worker"})
    # a trio payload adopted from the main task of a thread payload's PRIVATE trio.run runs in the
    # runtime's trio loop, not in the private one
    extra.append({"seed": ctx.seed, "jitter": 0.0, "payloads": {"t1": {"flavour": "trio"}, "h1": {"flavour": "threading"}, "late": {"flavour": "trio"}, "late2": {"flavour": "trio"}},
                  "script": [{"op": "adopt", "p": "t1"}, {"op": "adopt", "p": "h1"}, {"op": "accept"}, {"op": "wait_running"}, {"op": "wait_start", "p": "t1"}, {"op": "wait_start", "p": "h1"},
                             {"op": "adopt", "p": "late", "ctx": "owntrio:h1"}, {"op": "wait_start", "p": "late"}, {"op": "seg", "p": "late", "hold": 0.002}, {"op": "seg", "p": "t1", "hold": 0.002},
                             {"op": "adopt", "p": "late2", "ctx": "owntrio:h1"}, {"op": "wait_start", "p": "late2"}, {"op": "step", "p": "late2"}, {"op": "polls", "n": 2}], "shape": "targeted-adopt-from-private-trio-loop"})
    # a long blocking execute() is in flight while coroutine payloads adopt and step
    for f in scen.FLAVS:
        extra.append({"seed": ctx.seed, "jitter": 0.0, "payloads": {"c1": {"flavour": "asyncio"}, "t1": {"flavour": "trio"}, "x1p": {"flavour": f}, "late": {"flavour": "threading"}, "late2": {"flavour": "asyncio"}},
                      "script": [{"op": "adopt", "p": "c1"}, {"op": "adopt", "p": "t1"}, {"op": "accept"}, {"op": "wait_running"}, {"op": "wait_start", "p": "c1"}, {"op": "wait_start", "p": "t1"},
                                 {"op": "execute", "p": "x1p", "how": "val:x", "slow": 1.6, "wait": False}, {"op": "adopt", "p": "late", "ctx": "payload:c1"}, {"op": "adopt", "p": "late2", "ctx": "payload:t1"},
                                 {"op": "step", "p": "c1"}, {"op": "step", "p": "t1"}, {"op": "sleep", "ms": 1500}, {"op": "polls", "n": 2}], "shape": "targeted-slow-execute"})
    # a blocking execute() of a coroutine payload from inside a payload of the SAME flavour is
    # refused (the loop thread would wait for itself) - it must not be served by a second loop
    # (trio refuses; the same request inside asyncio blocks the loop on itself for ever - that is
    #  the documented "execute is blocking" and is not generated, DESIGN 7.5)
    for f in ("trio",):
        extra.append({"seed": ctx.seed, "jitter": 0.0, "payloads": {"c1": {"flavour": f}, "c2": {"flavour": f}, "xs": {"flavour": f, "args": [1], "kwargs": {}}},
                      "script": [{"op": "adopt", "p": "c1"}, {"op": "adopt", "p": "c2"}, {"op": "accept"}, {"op": "wait_running"}, {"op": "wait_start", "p": "c1"}, {"op": "wait_start", "p": "c2"},
                                 {"op": "execute", "p": "xs", "ctx": "payload:c1", "how": "val:x"}, {"op": "seg", "p": "c2", "hold": 0.002}, {"op": "step", "p": "c1"}, {"op": "polls", "n": 2}], "shape": "targeted-same-flavour-execute-refused"})
    # accept() of further runtimes is refused while this one runs - twice in a row - and the
    # services created afterwards all live in THIS runtime's loops (a second live runtime would
    # take some of them into its own loops and threads)
    svcs = {"s%d" % i: {"flavour": "asyncio" if i % 2 else "trio"} for i in range(1, 7)}
    extra.append({"seed": ctx.seed, "jitter": 0.0, "payloads": {"c1": {"flavour": "asyncio"}, "t1": {"flavour": "trio"}}, "services": svcs,
                  "script": [{"op": "adopt", "p": "c1"}, {"op": "adopt", "p": "t1"}, {"op": "accept"}, {"op": "wait_running"}, {"op": "wait_start", "p": "c1"}, {"op": "wait_start", "p": "t1"},
                             {"op": "second_accept", "timeout": 0.4}, {"op": "second_accept", "timeout": 0.4}]
                  + [{"op": "new_service", "s": s, "ctx": "driver"} for s in sorted(svcs)] + [{"op": "wait_start", "p": s} for s in sorted(svcs)]
                  + [{"op": "seg", "p": "s1", "hold": 0.002}, {"op": "seg", "p": "s3", "hold": 0.002}, {"op": "seg", "p": "c1", "hold": 0.002}, {"op": "step", "p": "s2"}, {"op": "step", "p": "t1"}, {"op": "polls", "n": 2}, {"op": "shutdown2"}],
                  "shape": "targeted-refused-accepts-then-services", "timeout": 14.0, "accept_delay": 1.0})
    # many thread payloads block at once, all adopted from inside a coroutine payload
    many = {"h%02d" % i: {"flavour": "threading"} for i in range(1, 37)}
    for f in ("asyncio", "trio"):
        pl = dict(many)
        pl.update({"c1": {"flavour": f}, "c2": {"flavour": f}})
        script = [{"op": "adopt", "p": "c1"}, {"op": "adopt", "p": "c2"}, {"op": "accept"}, {"op": "wait_running"}, {"op": "wait_start", "p": "c1"}, {"op": "wait_start", "p": "c2"}]
        for hp in sorted(many):
            script += [{"op": "adopt", "p": hp, "ctx": "payload:c1"}, {"op": "wait_start", "p": hp}, {"op": "block", "p": hp}]
        script += [{"op": "step", "p": "c1"}, {"op": "step", "p": "c2"}, {"op": "seg", "p": "c1", "hold": 0.001}, {"op": "polls", "n": 2}]
        extra.append({"seed": ctx.seed, "jitter": 0.0, "payloads": pl, "script": script, "shape": "targeted-many-blocking-threads", "timeout": 25.0})
    scen.run_family(ctx, sh, names=NAMES, extra_scenarios=extra, allow=(), mc_invariants=["AtMostOnce"], mc_properties=[], per_shape=60 if thorough else 8, depth=45, label="c11", script_hook=fix_script)
    ctx.extra["rule"] = "shapes = per coroutine flavour: two adopted payloads, one service, two executed payloads of that flavour, one payload of the other flavour and two thread payloads, submitted from driver / outside thread / payloads; synchronous sections are commanded to several payloads of the flavour at once; one thread payload blocks for ever while the coroutine payloads are asked for more steps"
    ctx.assumptions = RT_ASSUMPTIONS + ["overlap is detected through enter/exit events of synchronous sections recorded in the global event sequence; thread and loop identity are recorded by the payloads themselves", "a command not acknowledged within 2.5 s while a thread payload blocks (and nothing has triggered termination) counts as a stall"]
