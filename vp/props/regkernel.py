"""Registration kernel (specs/Registration.tla): model checking + forced-schedule replay.

Part of C03's check.  For every configuration (flavours of the submitters; protocol or free):
  1. TLC explores the whole state graph of Registration.tla.  Under the documented protocol
     (WaitForRunning) AdoptNeverRaises, NoneLost, MainSurvives, OnlyAdopted and Settles must
     hold; without it they are expected to FAIL (the start-up window, finding F8 - outside
     C03's claim, DESIGN 7.4): TLC's counterexamples are printed as NOTE lines.
  2. Every transition of the graph is emitted; a set of complete schedules (sequences of
     "which thread takes its next step") covering every transition (or a seeded sample) is
     forced onto the real MetaRunner by the gate scheduler (vp/rt/regsched.py) and every
     step's arrival point, every adopt outcome, every start count and the fate of accept()
     is compared with the state the specification predicts.
Verdicts: on a PROTOCOL schedule a raise from adopt, a lost, duplicated or wrongly-flavoured
start, or a crashed accept() is a violation of C03; any other disagreement (and every
disagreement on a free schedule) is drift: the specification no longer describes the code.
"""
import itertools
import json
import random
import subprocess
import sys
from concurrent.futures import ThreadPoolExecutor

from .. import core, graph, tlc

FLAVS = ("trio", "asyncio", "threading")
SAFETY = ["AdoptNeverRaises", "NoneLost", "MainSurvives"]


def mc_module(name, flav, emit):
    lines = ["---- MODULE %s ----" % name, "EXTENDS Registration, Json"]
    lines.append("MCSubs == 1..%d" % len(flav))
    lines.append("MCFlav == <<" + ", ".join('"%s"' % f for f in flav) + ">>")
    lines.append("St == [mpc |-> mpc, created |-> created, token |-> token, running |-> running, queue |-> queue, keys |-> keys, uq |-> uq, ksize |-> ksize, snap |-> snap, spc |-> spc, sres |-> sres, started |-> started]")
    if emit:
        lines.append('Who == IF mpc\' # mpc \\/ created\' # created THEN 0 ELSE CHOOSE s \\in MCSubs : spc\'[s] # spc[s]')
        lines.append('Emit == PrintT(<<"EDGE", ToJson([f |-> St, a |-> Who, t |-> St\'])>>)')
    lines.append("====")
    return "\n".join(lines)


def mc_cfg(protocol, invariants, emit, liveness=True):
    cfg = "SPECIFICATION Spec\nCONSTANTS\n Subs <- MCSubs\n FlavOf <- MCFlav\n WaitForRunning = %s\n" % ("TRUE" if protocol else "FALSE")
    cfg += "".join("INVARIANT %s\n" % i for i in invariants)
    if liveness:
        cfg += "PROPERTY Settles\n"
    if emit:
        cfg += "ACTION_CONSTRAINT Emit\n"
    return cfg


def expected_at(state, who):
    if who == 0:
        m = state["mpc"]
        if m == "launch":
            return "mr.launch.begin" if state["created"] == 0 else "mr.launch.created"
        return {"ready": "mr.launch.created", "launched": "mr.launched", "runset": "mr.running.set", "unqbegin": "mr.unq.begin", "direct": "mr.reg.direct", "cleared": "mr.unq.cleared", "done": "mr.unq.end", "crashed": "end"}[m]
    return {"hit": "mr.reg.direct", "miss": "mr.reg.miss", "toqueue": "mr.reg.queue", "done": "ret"}[state["spc"][who - 1]]


def complete_paths(g, budget, seed):
    """Schedules from the initial state to a terminal state that together cover every edge
    (or `budget` of them, picked in an order shuffled by seed)."""
    rnd = random.Random(seed)
    paths, remaining = graph.edge_cover_paths(g, max_len=60, budget_edges=budget, seed=seed)
    out = []
    for init, acts, exps in paths:
        acts, exps = list(acts), list(exps)
        cur = json.dumps(exps[-1] if exps else init, sort_keys=True)
        while g.out.get(cur):
            a, t = rnd.choice(g.out[cur])
            acts.append(json.loads(a))
            exps.append(g.nodes[t])
            cur = t
        out.append((acts, exps))
    return out, remaining


def run_jobs(jobs, parallel=14, chunk=12):
    """-> observations aligned with jobs (None where the child process failed)."""
    env = core.child_env()
    res = [None] * len(jobs)

    def work(idx):
        todo = list(idx)
        for _ in range(len(todo) + 1):
            if not todo:
                return
            try:
                p = subprocess.run([sys.executable, "-m", "vp.rt.regsched"], input=json.dumps([jobs[i] for i in todo]), env=env, text=True, stdout=subprocess.PIPE, stderr=subprocess.PIPE, timeout=20 + 8 * len(todo))
                got = json.loads(p.stdout) if p.stdout.strip() else []
            except (subprocess.TimeoutExpired, ValueError):
                got = []
            for i, o in zip(todo, got):
                res[i] = o
            todo = todo[max(len(got), 1):]  # a job that killed its process is not retried

    chunks = [range(i, min(i + chunk, len(jobs))) for i in range(0, len(jobs), chunk)]
    with ThreadPoolExecutor(max_workers=parallel) as ex:
        list(ex.map(work, chunks))
    return res


def compare(flav, acts, exps, obs, protocol):
    """-> (violations [(formula, what)], drifts [what])"""
    viol, drift = [], []
    if obs is None or obs.get("error"):
        return viol, ["scheduler process failed: %s" % (obs or {}).get("error", "no output")]
    final = exps[-1]
    steps = obs["steps"]
    n = len(flav)
    for i, (who, st) in enumerate(zip(acts, exps)):
        if i >= len(steps):
            drift.append("step %d (%s): the thread never arrived anywhere (stuck: %s)" % (i + 1, who or "main", obs.get("stuck")))
            break
        s = steps[i]
        got_who = 0 if s["who"] == "main" else s["who"]
        want = expected_at(st, who)
        if got_who != who or s["at"] != want:
            drift.append("step %d: %s expected to arrive at %s, arrived at %s (%s)" % (i + 1, "main" if who == 0 else "submitter %d" % who, want, s["at"], s.get("res") or s.get("cause") or ""))
            break
        if who and want == "ret" and s["res"] != st["sres"][who - 1]:
            msg = "step %d: adopt of submitter %d (%s): specification says %s, the code did %s" % (i + 1, who, flav[who - 1], st["sres"][who - 1], s["res"])
            if protocol and s["res"] != "ok":
                viol.append(("AdoptNeverRaises", msg))
            else:
                drift.append(msg)
            break
    if viol or drift:
        return viol, drift
    # final state
    crashed = final["mpc"] == "crashed"
    if crashed == obs["accept_running"]:
        msg = "accept() %s, the specification says it %s (%s)" % ("still runs" if obs["accept_running"] else "ended: %s" % obs["main_end"], "crashed" if crashed else "keeps running", obs["main_end"].get("cause", ""))
        if protocol and not obs["accept_running"]:
            viol.append(("MainSurvives", msg))
        else:
            drift.append(msg)
    if crashed:
        return viol, drift  # what the released threads meet in a dying runtime is not modelled
    want_started = {str(p) for p in final["started"]}
    for p in sorted(set(obs["starts"]) | want_started):
        c = obs["starts"].get(p, 0)
        w = 1 if p in want_started else 0
        if c != w:
            what = "payload %s (%s) started %d time(s), the specification says %d" % (p, "service loop" if p == "0" else flav[int(p) - 1], c, w)
            if protocol:
                viol.append(("NoneLost" if c < w else "StartedOnce", what))
            else:
                drift.append(what)
    if obs["wrong_flavour"]:
        what = "payloads %s ran outside the runner of their flavour" % obs["wrong_flavour"]
        if protocol:
            viol.append(("RightFlavour", what))
        else:
            drift.append(what)
    for s in range(1, n + 1):
        if final["spc"][s - 1] == "done" and obs["results"].get(str(s)) != final["sres"][s - 1]:
            drift.append("adopt of submitter %d: specification %s, code %s" % (s, final["sres"][s - 1], obs["results"].get(str(s))))
    return viol, drift


def configs(thorough, rnd):
    two = list(itertools.product(FLAVS, repeat=2))
    three = list(itertools.product(FLAVS, repeat=3))
    if thorough:
        return [(f, p) for f in two + three for p in (True, False)]
    pick3 = rnd.sample(three, 2)
    return [(f, True) for f in two] + [(f, False) for f in two[::2]] + [(f, p) for f in pick3 for p in (True, False)]


def run(ctx):
    thorough = ctx.tier == "thorough"
    rnd = random.Random(ctx.seed)
    budget_total = 6000 if thorough else 420
    cfgs = configs(thorough, rnd)
    jobs, meta = [], []
    nsched = 0
    notes = []
    per_cfg = max(12, budget_total // len(cfgs))
    def explore(arg):
        k, (flav, protocol) = arg
        name = "MCReg_%s_%s" % ("".join(f[:2] for f in flav), "proto" if protocol else "free")
        inv = ["TypeOK", "OnlyAdopted"] + (SAFETY if protocol else [])
        return name, tlc.run(name, mc_cfg(protocol, inv, True), module_text=mc_module(name, flav, True), name=name, workers=1, timeout=600, coverage=(k < 2), heap="1g")

    # the start-up window: without the protocol the three safety formulas are expected to fail
    def window_run(f):
        name = "MCReg_window_%s" % f
        return name, tlc.run(name, mc_cfg(False, [f], False, liveness=False), module_text=mc_module(name, ("trio", "asyncio"), False), name=name, workers=1, timeout=300, heap="1g")

    # thorough: four submitters, model only (no emission): the protocol's guarantees for every
    # flavour multiset
    def big_run(flav):
        name = "MCReg4_%s" % "".join(f[:2] for f in flav)
        return name, tlc.run(name, mc_cfg(True, ["TypeOK", "OnlyAdopted"] + SAFETY, False), module_text=mc_module(name, flav, False), name=name, workers=2, timeout=900, heap="2g")

    big = list(itertools.combinations_with_replacement(FLAVS, 4)) if thorough else []
    with ThreadPoolExecutor(max_workers=10) as ex:
        explored = list(ex.map(explore, enumerate(cfgs)))
        windows = list(ex.map(window_run, SAFETY))
        bigs = list(ex.map(big_run, big))
    for name, res in bigs:
        ctx.model_must_hold(name, res)
        ctx.add_model_run(name + " (model only)", res)
    for k, ((flav, protocol), (name, res)) in enumerate(zip(cfgs, explored)):
        ctx.model_must_hold(name, res)
        ctx.add_model_run(name, res)
        g = graph.from_prints(res.prints)
        if not g.nedges:
            raise tlc.MachineryError("%s: no transitions emitted" % name)
        paths, remaining = complete_paths(g, None if thorough and len(flav) == 2 else per_cfg * 6, ctx.seed + k)
        if len(paths) > per_cfg and not (thorough and len(flav) == 2):
            paths = rnd.sample(paths, per_cfg)
        for acts, exps in paths:
            # (how many starts the specification expects: the scheduler waits for that many - up
            #  to 3 s - before it lets the starts settle, however slow the machine is)
            jobs.append({"flav": list(flav), "sched": ["main" if a == 0 else a for a in acts], "expect_starts": 0 if exps[-1]["mpc"] == "crashed" else len(exps[-1]["started"])})
            meta.append((flav, protocol, acts, exps))
    for f, (name, res) in zip(SAFETY, windows):
        tlc.require_ok(res, name)
        if res.violated:
            notes.append(f)
        else:
            raise tlc.MachineryError("Registration.tla without the protocol is expected to violate %s (finding F8); it does not - the window model is wrong" % f)
    obs = run_jobs(jobs)
    nviol = ndrift = 0
    window = conforming = 0
    for (flav, protocol, acts, exps), job, o in zip(meta, jobs, obs):
        ctx.traces_total += 1
        ctx.events_total += len(acts)
        viol, drift = compare(flav, acts, exps, o, protocol)
        case = {"kernel": "Registration", "flavours": list(flav), "protocol": protocol, "schedule": job["sched"], "observed": o}
        if not protocol:
            final = exps[-1]
            if final["mpc"] == "crashed" or any(r not in ("-", "ok") for r in final["sres"]) or any(final["sres"][s] == "ok" and (s + 1) not in final["started"] for s in range(len(flav)) if final["mpc"] == "done"):
                window += 1
        for formula, what in viol:
            nviol += 1
            ctx.add_violation(formula, {"invariant": formula, "kernel": "registration", "flavours": "/".join(flav)}, "registration kernel, protocol schedule %s: %s" % (job["sched"], what), case)
        for what in drift:
            ndrift += 1
            ctx.add_drift("registration kernel (%s, %s) schedule %s: %s" % ("/".join(flav), "protocol" if protocol else "free", job["sched"], what), case)
        if not viol and not drift:
            ctx.traces_accepted += 1
            conforming += 1
            ctx.note_distinct(["reg", flav, protocol, job["sched"]])
    print("NOTE property=C03 start-up window (outside the claim, DESIGN 7.4 / finding F8): without the wait-for-running protocol Registration.tla violates %s; %d forced schedules inside the window behaved on the real code exactly as the specification predicts (lost payload / AssertionError / 'unknown runner' / 'dictionary changed size during iteration')" % (", ".join(notes), window))
    ctx.extra["registration_kernel"] = {"configurations": len(cfgs), "schedules_forced": len(jobs), "conforming": conforming, "window_schedules_reproducing_F8": window,
                                        "expected_model_violations_without_protocol": notes}
    return nviol, ndrift


# ---------------------------------------------------------------------------------------------
# Closing.tla: a registration racing the failure path of the runtime
CLOSE_INV = ["TypeOK", "NoUnknownRunner", "TableGoneOnlyWhenNotRunning", "AdoptNeverRaises"]


def close_module(name, flav, emit):
    lines = ["---- MODULE %s ----" % name, "EXTENDS Closing, Json"]
    lines.append("MCSubs == 1..%d" % len(flav))
    lines.append("MCFlav == <<" + ", ".join('"%s"' % f for f in flav) + ">>")
    lines.append("St == [mpc |-> mpc, table |-> table, alive |-> alive, running |-> running, loopopen |-> loopopen, spc |-> spc, sres |-> sres, fate |-> fate]")
    if emit:
        lines.append("Who == IF mpc' # mpc THEN 0 ELSE CHOOSE s \\in MCSubs : spc'[s] # spc[s]")
        lines.append('Emit == PrintT(<<"EDGE", ToJson([f |-> St, a |-> Who, t |-> St\'])>>)')
    lines.append("====")
    return "\n".join(lines)


def close_cfg(invariants, emit, liveness=True):
    cfg = "SPECIFICATION Spec\nCONSTANTS\n Subs <- MCSubs\n FlavOf <- MCFlav\n"
    cfg += "".join("INVARIANT %s\n" % i for i in invariants)
    if liveness:
        cfg += "PROPERTY Settles\n"
    if emit:
        cfg += "ACTION_CONSTRAINT Emit\n"
    return cfg


def close_expected_at(state, who):
    if who == 0:
        return {"closing": "mr.aclose.begin", "aclosed": "mr.aclose.end", "finally": "mr.running.clear", "ended": "end"}[state["mpc"]]
    return {"hit": "mr.reg.direct", "miss": "mr.reg.miss", "toqueue": "mr.reg.queue", "done": "ret"}[state["spc"][who - 1]]


def compare_closing(flav, acts, exps, obs):
    viol, drift = [], []
    if obs is None or obs.get("error"):
        return viol, ["scheduler process failed: %s" % (obs or {}).get("error", "no output")]
    steps = obs["steps"]
    for i, (who, st) in enumerate(zip(acts, exps)):
        if i >= len(steps):
            drift.append("step %d (%s): the thread never arrived anywhere (stuck: %s)" % (i + 1, who or "main", obs.get("stuck")))
            return viol, drift
        s = steps[i]
        got_who = 0 if s["who"] == "main" else s["who"]
        want = close_expected_at(st, who)
        if got_who != who or s["at"] != want:
            drift.append("step %d: %s expected to arrive at %s, arrived at %s (%s)" % (i + 1, "main" if who == 0 else "submitter %d" % who, want, s["at"], s.get("res") or s.get("cause") or ""))
            return viol, drift
        if who and want == "ret" and s["res"] != st["sres"][who - 1]:
            msg = "step %d: adopt of submitter %d (%s) while main stands at '%s': specification says %s, the code did %s" % (i + 1, who, flav[who - 1], st["mpc"], st["sres"][who - 1], s["res"])
            if s["res"] != "ok":
                viol.append(("AdoptNeverRaises", msg, {"res": s["res"].split(":")[0], "flavour": flav[who - 1], "main_at": st["mpc"]}))
            else:
                drift.append(msg)
            return viol, drift
    final = exps[-1]
    if obs["accept_running"]:
        drift.append("accept() still runs although a payload failed")
    cause = obs["main_end"].get("cause", "")
    if not obs["accept_running"] and not cause.startswith("Boom"):
        drift.append("accept() ended with %s, expected the scheduled failure as its cause" % obs["main_end"])
    for s in range(1, len(flav) + 1):
        fate = final["fate"][s - 1]
        c = obs["starts"].get(str(s), 0)
        lo, hi = {"started": (1, 1), "unsupervised": (1, 1), "maybe": (0, 1), "abandoned": (0, 1)}.get(fate, (0, 0))
        if not lo <= c <= hi:
            what = "payload %d (%s, %s) started %d time(s), the specification says %d..%d" % (s, flav[s - 1], fate, c, lo, hi)
            if c > 1 or (fate == "started" and c == 0):
                viol.append(("NoneLost" if c == 0 else "StartedOnce", what, {"fate": fate, "flavour": flav[s - 1]}))
            else:
                drift.append(what)
    if obs["wrong_flavour"]:
        viol.append(("RightFlavour", "payloads %s ran outside the runner of their flavour" % obs["wrong_flavour"], {}))
    return viol, drift


def run_closing(ctx):
    thorough = ctx.tier == "thorough"
    rnd = random.Random(ctx.seed + 17)
    two = list(itertools.product(FLAVS, repeat=2))
    three = list(itertools.product(FLAVS, repeat=3))
    cfgs = two + (three if thorough else rnd.sample(three, 3))
    per_cfg = 400 if thorough else 14

    def explore(arg):
        k, flav = arg
        name = "MCClose_%s" % "".join(f[:2] for f in flav)
        return name, tlc.run(name, close_cfg(CLOSE_INV, True), module_text=close_module(name, flav, True), name=name, workers=1, timeout=600, coverage=(k < 1), heap="1g")

    def window_run(_):
        name = "MCClose_left_alone"
        return name, tlc.run(name, close_cfg(["NeverLeftAlone"], False, liveness=False), module_text=close_module(name, ("asyncio", "threading"), False), name=name, workers=1, timeout=300, heap="1g")

    with ThreadPoolExecutor(max_workers=10) as ex:
        explored = list(ex.map(explore, enumerate(cfgs)))
        left = list(ex.map(window_run, [0]))[0]
    jobs, meta = [], []
    for k, (flav, (name, res)) in enumerate(zip(cfgs, explored)):
        ctx.model_must_hold(name, res)
        ctx.add_model_run(name, res)
        g = graph.from_prints(res.prints)
        if not g.nedges:
            raise tlc.MachineryError("%s: no transitions emitted" % name)
        paths, remaining = complete_paths(g, None if thorough else per_cfg * 8, ctx.seed + k)
        if len(paths) > per_cfg:
            paths = rnd.sample(paths, per_cfg)
        for acts, exps in paths:
            sched = []
            for a, st in zip(acts, exps):
                sched.append(a if a else ("fail" if st["mpc"] == "closing" else "main"))
            jobs.append({"close": True, "flav": list(flav), "sched": sched, "expect_starts": len([f for f in exps[-1]["fate"] if f in ("started", "unsupervised")])})
            meta.append((flav, acts, exps))
    tlc.require_ok(left[1], left[0])
    if not left[1].violated:
        raise tlc.MachineryError("Closing.tla is expected to violate NeverLeftAlone (finding F13 and its threading variant); it does not")
    obs = run_jobs(jobs)
    alone = conforming = 0
    for (flav, acts, exps), job, o in zip(meta, jobs, obs):
        ctx.traces_total += 1
        ctx.events_total += len(acts)
        viol, drift = compare_closing(flav, acts, exps, o)
        case = {"kernel": "Closing", "flavours": list(flav), "schedule": job["sched"], "observed": o}
        if any(f in ("abandoned", "unsupervised") for f in exps[-1]["fate"]):
            alone += 1
        for formula, what, extra in viol:
            fp = {"invariant": formula, "kernel": "closing"}
            fp.update(extra)
            ctx.add_violation(formula, fp, "closing kernel, schedule %s: %s" % (job["sched"], what), case)
        for what in drift:
            ctx.add_drift("closing kernel (%s) schedule %s: %s" % ("/".join(flav), job["sched"], what), case)
        if not viol and not drift:
            ctx.traces_accepted += 1
            conforming += 1
            ctx.note_distinct(["close", flav, job["sched"]])
    print("NOTE property=C03 closing kernel: %d forced schedules of adopt() racing the failure path; in %d of them a payload handed to an already closed asyncio / threading runner runs unsupervised, as Closing.tla predicts (NeverLeftAlone fails in the model: finding F13 of C02 and its threading variant; not a clause of C03)" % (len(jobs), alone))
    ctx.extra["closing_kernel"] = {"configurations": len(cfgs), "schedules_forced": len(jobs), "conforming": conforming, "schedules_with_unsupervised_payload": alone}


# ---------------------------------------------------------------------------------------------
# Stopping.tla: registrations racing ServiceRunner.shutdown() from another thread
STOP_INV = ["TypeOK", "NoUnknownRunner", "TableGoneOnlyWhenNotRunning", "AdoptNeverRaises", "EndAfterShutdownReturned"]


def stop_module(name, flav, emit):
    lines = ["---- MODULE %s ----" % name, "EXTENDS Stopping, Json, Integers"]
    lines.append("MCSubs == 1..%d" % len(flav))
    lines.append("MCFlav == <<" + ", ".join('"%s"' % f for f in flav) + ">>")
    lines.append("St == [spc0 |-> spc0, mpc |-> mpc, table |-> table, alive |-> alive, running |-> running, loopopen |-> loopopen, spc |-> spc, sres |-> sres, fate |-> fate]")
    if emit:
        lines.append("Who == IF spc0' # spc0 THEN 0 - 1 ELSE IF mpc' # mpc THEN 0 ELSE CHOOSE s \\in MCSubs : spc'[s] # spc[s]")
        lines.append('Emit == PrintT(<<"EDGE", ToJson([f |-> St, a |-> Who, t |-> St\'])>>)')
    lines.append("====")
    return "\n".join(lines)


def stop_expected_at(state, who):
    if who == -1:
        return {"flagged": "sr.shutdown.flag", "waited": "sr.shutdown.stop", "returned": "sr.shutdown.ret"}[state["spc0"]]
    if who == 0:
        return {"finally": "mr.running.clear", "ended": "end"}[state["mpc"]]
    return {"hit": "mr.reg.direct", "miss": "mr.reg.miss", "toqueue": "mr.reg.queue", "done": "ret"}[state["spc"][who - 1]]


def compare_stopping(flav, acts, exps, obs):
    viol, drift = [], []
    if obs is None or obs.get("error"):
        return viol, ["scheduler process failed: %s" % (obs or {}).get("error", "no output")]
    steps = obs["steps"]
    names = {-1: "shut", 0: "main"}
    for i, (who, st) in enumerate(zip(acts, exps)):
        if i >= len(steps):
            drift.append("step %d (%s): the thread never arrived anywhere (stuck: %s)" % (i + 1, names.get(who, who), obs.get("stuck")))
            return viol, drift
        s = steps[i]
        want = stop_expected_at(st, who)
        if s["who"] != names.get(who, who) or s["at"] != want:
            drift.append("step %d: %s expected to arrive at %s, arrived at %s (%s)" % (i + 1, names.get(who, "submitter %s" % who), want, s["at"], s.get("res") or s.get("cause") or ""))
            return viol, drift
        if who > 0 and want == "ret" and s["res"] != st["sres"][who - 1]:
            msg = "step %d: adopt of submitter %d (%s) with shutdown() at '%s' and main at '%s': specification says %s, the code did %s" % (i + 1, who, flav[who - 1], st["spc0"], st["mpc"], st["sres"][who - 1], s["res"])
            if s["res"] != "ok":
                viol.append(("AdoptNeverRaises", msg, {"res": s["res"].split(":")[0], "flavour": flav[who - 1], "main_at": st["mpc"], "shutdown_at": st["spc0"]}))
            else:
                drift.append(msg)
            return viol, drift
    final = exps[-1]
    if obs["accept_running"] or obs["main_end"].get("exc"):
        viol.append(("StopReturnsNormally", "after shutdown() accept() %s" % ("still runs" if obs["accept_running"] else "raised %s" % obs["main_end"]), {}))
    if obs.get("shut_end", {}).get("exc", "") != "":
        viol.append(("ShutdownDoesNotRaise", "shutdown() raised %s" % obs["shut_end"], {}))
    for s in range(1, len(flav) + 1):
        fate = final["fate"][s - 1]
        c = obs["starts"].get(str(s), 0)
        lo, hi = {"started": (1, 1), "unsupervised": (1, 1), "maybe": (0, 1), "abandoned": (0, 1)}.get(fate, (0, 0))
        if not lo <= c <= hi:
            what = "payload %d (%s, %s) started %d time(s), the specification says %d..%d" % (s, flav[s - 1], fate, c, lo, hi)
            if c > 1 or (fate == "started" and c == 0):
                viol.append(("NoneLost" if c == 0 else "StartedOnce", what, {"fate": fate, "flavour": flav[s - 1]}))
            else:
                drift.append(what)
    if obs["wrong_flavour"]:
        viol.append(("RightFlavour", "payloads %s ran outside the runner of their flavour" % obs["wrong_flavour"], {}))
    return viol, drift


C03_FORMULAS = ("AdoptNeverRaises", "NoneLost", "StartedOnce", "RightFlavour")
C12_FORMULAS = ("StopReturnsNormally", "ShutdownDoesNotRaise")


def run_stopping(ctx, only=C03_FORMULAS):
    """only: the formulas that belong to the property whose check calls this (the others'
    failures are reported as drift here and as violations by the other property's check)"""
    thorough = ctx.tier == "thorough"
    rnd = random.Random(ctx.seed + 29)
    two = list(itertools.product(FLAVS, repeat=2))
    three = list(itertools.product(FLAVS, repeat=3))
    cfgs = two + (three if thorough else rnd.sample(three, 2))
    per_cfg = 400 if thorough else 12

    def explore(arg):
        k, flav = arg
        name = "MCStop_%s" % "".join(f[:2] for f in flav)
        return name, tlc.run(name, close_cfg(STOP_INV, True), module_text=stop_module(name, flav, True), name=name, workers=1, timeout=600, coverage=(k < 1), heap="1g")

    with ThreadPoolExecutor(max_workers=10) as ex:
        explored = list(ex.map(explore, enumerate(cfgs)))
    jobs, meta = [], []
    for k, (flav, (name, res)) in enumerate(zip(cfgs, explored)):
        ctx.model_must_hold(name, res)
        ctx.add_model_run(name, res)
        g = graph.from_prints(res.prints)
        if not g.nedges:
            raise tlc.MachineryError("%s: no transitions emitted" % name)
        paths, remaining = complete_paths(g, None if thorough else per_cfg * 8, ctx.seed + k)
        if len(paths) > per_cfg:
            paths = rnd.sample(paths, per_cfg)
        for acts, exps in paths:
            jobs.append({"stop": True, "flav": list(flav), "sched": ["shut" if a == -1 else "main" if a == 0 else a for a in acts], "expect_starts": len([f for f in exps[-1]["fate"] if f in ("started", "unsupervised")])})
            meta.append((flav, acts, exps))
    obs = run_jobs(jobs)
    alone = conforming = 0
    for (flav, acts, exps), job, o in zip(meta, jobs, obs):
        ctx.traces_total += 1
        ctx.events_total += len(acts)
        viol, drift = compare_stopping(flav, acts, exps, o)
        case = {"kernel": "Stopping", "flavours": list(flav), "schedule": job["sched"], "observed": o}
        if any(f in ("abandoned", "unsupervised") for f in exps[-1]["fate"]):
            alone += 1
        for formula, what, extra in viol:
            if formula not in only:
                drift.append("%s (%s)" % (what, formula))
                continue
            fp = {"invariant": formula, "kernel": "stopping"}
            fp.update(extra)
            ctx.add_violation(formula, fp, "stopping kernel, schedule %s: %s" % (job["sched"], what), case)
        viol = [v for v in viol if v[0] in only]
        for what in drift:
            ctx.add_drift("stopping kernel (%s) schedule %s: %s" % ("/".join(flav), job["sched"], what), case)
        if not viol and not drift:
            ctx.traces_accepted += 1
            conforming += 1
            ctx.note_distinct(["stop", flav, job["sched"]])
    ctx.extra["stopping_kernel"] = {"configurations": len(cfgs), "schedules_forced": len(jobs), "conforming": conforming, "schedules_with_unsupervised_payload": alone}
