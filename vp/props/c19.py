"""C19 - nested __type__ mappings translate bottom-up with exact error locations.

Specification: specs/Translate.tla (+ TranslateTrace.tla).  TLC enumerates configuration
trees (scalars, lists, mappings, typed mappings whose factory works / raises / cannot be
resolved; __args__ at either end of the items), checks the formulas on the model and emits
every tree; each is rendered with concrete, individually distinguishable factories and run
through the real Translator; the recorded factory calls and the result/where go back to TLC.
"""
import json
import random
import re

from .. import core, tlc, traceval

INVARIANTS = ["OutExact", "OncePerTyped", "ArgsExact", "ChildrenFirst", "ListLaterFirst", "FailureReported", "ErrorIsConfigurationError", "WhereIsExactPath"]
DUMMY = " Trees = {}\n MaxRuns = 2"


def mc_module(name, top_from_t1, emit):
    """T0: leaves.  T1: one level above leaves (all forms).  The top level is enumerated
    with nested \\E over forms whose children come from T1 (quick: from a thinner set)."""
    L = ["---- MODULE %s ----" % name, "EXTENDS Translate, Json"]
    L.append('Kinds == {"ok", "raises", "noload"}')
    L.append('Keys == {"a", "b"}')
    L.append('T0 == {<<"S", 1>>} \\cup {<<"T", k, <<>>>> : k \\in Kinds}')
    L.append("Seqs2(S) == {<<>>} \\cup {<<x>> : x \\in S} \\cup {<<x, y>> : x \\in S, y \\in S}")
    L.append("Seqs1(S) == {<<>>} \\cup {<<x>> : x \\in S}")
    L.append("Items1(S) == {<<>>} \\cup {<<<<k, x>>>> : k \\in Keys, x \\in S}")
    L.append('Items2(S) == Items1(S) \\cup {<<<<"a", x>>, <<"b", y>>>> : x \\in S, y \\in S} \\cup {<<<<"b", x>>, <<"a", y>>>> : x \\in S, y \\in S}')
    L.append('WithArgs(S, its) == {its} \\cup {<<<<ArgsKey, <<"L", a>>>>>> \\o its : a \\in Seqs1(S)} \\cup {its \\o <<<<ArgsKey, <<"L", a>>>>>> : a \\in Seqs1(S)}')
    L.append("TItems(S) == UNION {WithArgs(S, its) : its \\in Items1(S)}")
    L.append('Level(S) == S \\cup {<<"L", s>> : s \\in Seqs2(S)} \\cup {<<"M", it>> : it \\in Items2(S)} \\cup {<<"T", k, it>> : k \\in Kinds, it \\in TItems(S)}')
    L.append("T1 == Level(T0)")
    if top_from_t1:
        L.append("Kids == T1")
    else:
        # a thinner child set for the quick tier: leaves, and every T1 form built from leaves
        # of at most one failing kind
        L.append('Thin0 == {<<"S", 1>>, <<"T", "ok", <<>>>>, <<"T", "raises", <<>>>>}')
        L.append('Kids == T0 \\cup {<<"L", s>> : s \\in Seqs2(Thin0)} \\cup {<<"M", it>> : it \\in Items1(Thin0)} \\cup {<<"T", k, it>> : k \\in Kinds, it \\in Items1(Thin0) \\cup WithArgs(Thin0, <<>>)}')
    L.append(
        "MCInit == \\/ \\E t \\in Kids : InitWith(t)\n"
        '          \\/ \\E s \\in Seqs2(Kids) : Len(s) = 2 /\\ InitWith(<<"L", s>>)\n'
        '          \\/ \\E x \\in Kids, y \\in Kids : InitWith(<<"M", <<<<"a", x>>, <<"b", y>>>>>>)\n'
        '          \\/ \\E k \\in Kinds, x \\in Kids, y \\in Kids : InitWith(<<"T", k, <<<<"b", x>>, <<ArgsKey, <<"L", <<y>>>>>>>>>>)\n'
        '          \\/ \\E k \\in Kinds, x \\in Kids, y \\in Kids : InitWith(<<"T", k, <<<<ArgsKey, <<"L", <<x, y>>>>>>>>>>)'
    )
    L.append("MCSpec == MCInit /\\ [][Next]_vars")
    if emit:
        L.append('EmitInit == (calls # <<>> \\/ result # Running \\/ runs # 1) \\/ PrintT(<<"INIT", ToJson(tree)>>)')
    L.append("====")
    return "\n".join(L)


def mc_cfg(emit):
    cfg = "SPECIFICATION MCSpec\nCONSTANTS\n Trees = {}\n MaxRuns = 2\n" + "".join("INVARIANT %s\n" % i for i in INVARIANTS)
    if emit:
        cfg += "CONSTRAINT EmitInit\n"
    return cfg


# ------------------------------------------------------------------ driver
# plain data: YAML scalars - also !!binary (bytes) - and, in Python configurations, tuples (they
# are data as they stand, whatever they contain: only lists and mappings are walked)
SCALARS = [17, "text", None, 2.5, True, 0, "", -3, b"\x00bin", (1, "t"), ({"__type__": "vp.fx_translate.okf_7777", "k": 1},)]
OK_KINDS = ["okf", "okc", "okn", "rebind"]
RAISE_KINDS = ["raise", "cfgerr", "raiseassert", "raiselookup"]
NOLOAD_KINDS = ["nomodule", "missing", "notcallable", "nulltype"]


# mapping keys need not be strings (YAML "1:" or "yes:"): the location of an element below such a
# key is still ".<key>"; the driver renders some keys that way and maps them back
KEYMAP = {"b": 1, "c": False, "d": -7}  # (1 and True would be ONE key)
KEYBACK = {str(v): k for k, v in KEYMAP.items()}
KEYS_ODD = [False]


def path_key(path):
    return json.dumps(path)


def render(tree, path, rnd, ids, scalars):
    """abstract tree -> concrete python structure; ids: path_key -> (id, concrete kind)"""
    k = tree[0]
    if k == "S":
        return scalars[tree[1]]
    if k == "L":
        out = []
        for i, t in enumerate(tree[1]):
            if i and t == tree[1][i - 1] and t[0] == "T" and t[1] == "noload" and not t[2] and isinstance(out[-1], dict) and rnd.random() < 0.6:
                # a copy-and-paste list: the SAME unresolvable element twice - two equal items,
                # each with its own index
                ids[path_key(path + [["i", i]])] = ids[path_key(path + [["i", i - 1]])]
                out.append(dict(out[-1]))
            else:
                out.append(render(t, path + [["i", i]], rnd, ids, scalars))
        return out
    if k == "M":
        return {KEYMAP.get(key, key) if KEYS_ODD[0] else key: render(t, path + [["k", key]], rnd, ids, scalars) for key, t in tree[1]}
    if k == "T":
        ident = len(ids)
        kind = rnd.choice({"ok": OK_KINDS, "raises": RAISE_KINDS, "noload": NOLOAD_KINDS}[tree[1]])
        ids[path_key(path)] = (ident, kind)
        if kind == "nulltype":
            # the key is there, but what it names is nothing: still a __type__ mapping, and an
            # error at exactly this place
            name = rnd.choice([None, "", 0, False, []])
        elif kind == "nomodule":
            name = "vp_no_such_module_%d.thing" % ident
        elif kind == "okn":
            name = "vp.fx_translate.holder.inner.okn_%d" % ident
        elif kind == "rebind":
            name = "vp.fx_translate.rebind_%d" % ident
        else:
            name = "vp.fx_translate.%s_%d" % (kind, ident)
        items = [(key, render(t, path + [["k", key]], rnd, ids, scalars)) for key, t in tree[2]]  # (keyword names stay strings)
        # __type__ goes first, last or in the middle - its position must not matter
        pos = rnd.randrange(len(items) + 1)
        items.insert(pos, ("__type__", name))
        return dict(items)
    raise ValueError(k)


def encode(val, by_id, scalars):
    from vp.fx_translate import Made

    if isinstance(val, Made):
        p = by_id.get(val.ident)
        return ["O", p] if p is not None else ["X", "unknown object %r" % val]
    if isinstance(val, (tuple, bytes)):
        for tok, s in scalars.items():
            if type(s) is type(val) and s == val:
                return ["S", tok]
        return ["X", type(val).__name__]
    if isinstance(val, list):
        return ["L", [encode(v, by_id, scalars) for v in val]]
    if isinstance(val, dict):
        if "__type__" in val:
            return ["X", "untranslated __type__ mapping"]
        return ["M", [[(KEYBACK.get(str(k), k) if KEYS_ODD[0] and not isinstance(k, str) else k), encode(v, by_id, scalars)] for k, v in val.items()]]
    for tok, s in scalars.items():
        if type(s) is type(val) and s == val:
            return ["S", tok]
    return ["X", repr(val)[:60]]


_WHERE = re.compile(r"\.([^.\[\]]+)|\[(\d+)\]")


def tokenize_where(where):
    if where is None:
        return [["x", "None"]]
    out, pos = [], 0
    for m in _WHERE.finditer(where):
        if m.start() != pos:
            return [["x", where]]
        pos = m.end()
        out.append(["k", (KEYBACK.get(m.group(1), m.group(1)) if KEYS_ODD[0] else m.group(1))] if m.group(1) is not None else ["i", int(m.group(2))])
    if pos != len(where):
        return [["x", where]]
    return out


def execute(case):
    """case: {tree, seed}"""
    from cobald.daemon.config.mapping import Translator, ConfigurationError
    from cobald.daemon.core.config import PipelineTranslator
    import vp.fx_translate as fx

    rnd = random.Random(case["seed"])
    s1, s2 = rnd.sample(SCALARS, 2)
    if s1 == s2 and type(s1) is type(s2):  # pragma: no cover
        s2 = "other"
    scalars = {1: s1, 2: s2}
    ids = {}
    KEYS_ODD[0] = case["seed"] % 4 == 3
    concrete = render(case["tree"], [], rnd, ids, scalars)
    by_id = {ident: json.loads(pk) for pk, (ident, kind) in ids.items()}
    events = []
    exc = ""
    # the same configuration OBJECT is translated twice (every second case): translation must
    # not depend on, or leave traces in, its input
    for run_no in range(2 if case["seed"] % 2 == 0 else 1):
        if run_no:
            events.append({"e": "Again"})
        del fx.LOG[:]
        # names are resolved anew by every translation: the rebindable factories are replaced
        for pk, (ident, kind) in ids.items():
            if kind == "rebind":
                fx.rebind(ident, run_no)
        root_typed = case["tree"][0] == "T"
        extra = {"vp_marker": "mk"} if (root_typed and case["seed"] % 3 == 0) else {}
        try:
            # (the pipeline-aware subclass treats everything that is no pipeline like its base)
            translator = PipelineTranslator() if case["seed"] % 5 == 1 else Translator()
            out = translator.translate_hierarchy(concrete, **extra)
        except ConfigurationError as e:
            end = {"e": "End", "state": "cfgerr", "where": tokenize_where(e.where)}
        except BaseException as e:  # noqa
            end = {"e": "End", "state": "other"}
            exc = type(e).__name__
        else:
            end = {"e": "End", "state": "ok", "val": encode(out, by_id, scalars)}
        for entry in fx.LOG:
            ident, args, kwargs = entry[:3]
            n = by_id.get(ident, [["x", "?"]])
            if len(entry) > 3 and entry[3] != run_no:
                n = [["x", "stale factory of an earlier translation"]]
            kwargs = dict(kwargs)
            if n == [] and kwargs.get("vp_marker") == "mk" and extra:
                kwargs.pop("vp_marker")  # keyword arguments given to the call itself reach the root only
            events.append({"e": "Call", "n": n, "args": [encode(a, by_id, scalars) for a in args], "kw": [[k, encode(v, by_id, scalars)] for k, v in kwargs.items()]})
        del fx.LOG[:]
        events.append(end)
    return {"tree": case["tree"], "seed": case["seed"], "events": events, "exc": exc, "kinds": {pk: kind for pk, (i, kind) in ids.items()}}


def random_tree(rnd, depth):
    c = rnd.random()
    if depth == 0 or c < 0.2:
        if rnd.random() < 0.5:
            return ["S", rnd.choice([1, 2])]
        return ["T", rnd.choice(["ok", "ok", "ok", "raises", "noload"]), []]
    if c < 0.45:
        items = [random_tree(rnd, depth - 1) for _ in range(rnd.randrange(0, 4))]
        if rnd.random() < 0.25:
            at = rnd.randrange(len(items) + 1)
            items[at:at] = [["T", "noload", []], ["T", "noload", []]]
        return ["L", items]
    keys = rnd.sample(["a", "b", "c", "d"], rnd.randrange(0, 4))
    items = [[k, random_tree(rnd, depth - 1)] for k in keys]
    if c < 0.65:
        return ["M", items]
    if rnd.random() < 0.6:
        args = ["__args__", ["L", [random_tree(rnd, depth - 1) for _ in range(rnd.randrange(0, 3))]]]
        items.insert(rnd.randrange(len(items) + 1), args)
    return ["T", rnd.choice(["ok", "ok", "ok", "ok", "raises", "noload"]), items]


def fingerprint(tr, name):
    fp = {"invariant": name}
    if tr["exc"]:
        fp["exception"] = tr["exc"]
    return fp


def judge(ctx, traces, verdicts):
    for tr, v in zip(traces, verdicts):
        ctx.traces_total += 1
        ctx.events_total += len(tr["events"])
        if v.accepted:
            ctx.traces_accepted += 1
        if v.nc is not None:
            ctx.traces_nc += 1
        case = {"tree": tr["tree"], "seed": tr["seed"]}
        for name in sorted({n for _, n in v.pv}):
            ctx.add_violation(name, fingerprint(tr, name), "tree %s (factories %s) -> %s violates %s" % (json.dumps(tr["tree"]), tr["kinds"], json.dumps(tr["events"])[:600], name), case, detail={"trace": tr})
        if v.nc is not None and not v.pv:
            ctx.add_drift("event %d of tree %s is not a step of Translate.tla: %s" % (v.nc[0], json.dumps(tr["tree"]), json.dumps(tr["events"][v.nc[0] - 1])[:300]), case)
        if tr["kinds"]:
            ctx.note_distinct([tr["tree"], tr["events"][-1]["state"]])


def run(ctx):
    thorough = ctx.tier == "thorough"
    rnd = random.Random(ctx.seed)
    name = "MCTr"
    res = tlc.run(name, mc_cfg(True), module_text=mc_module(name, thorough, True), workers=1 if True else 16, timeout=3000, heap="8g")
    ctx.model_must_hold("Translate model", res)
    ctx.add_model_run("Translate.tla/%s" % ("children from T1" if thorough else "children from thin T1"), res)
    trees = [json.loads(p[1]) for p in res.prints if p[0] == "INIT"]
    ctx.extra["trees_emitted"] = len(trees)
    budget = 60000 if thorough else 5000
    if len(trees) > budget:
        trees = rnd.sample(trees, budget)
    cases = [{"tree": t, "seed": ctx.seed * 1000003 + i} for i, t in enumerate(trees)]
    for i in range(6000 if thorough else 1200):
        cases.append({"tree": random_tree(rnd, rnd.choice([2, 3, 3, 4, 5])), "seed": ctx.seed * 7 + i})
    traces = [execute(c) for c in cases]
    ctx.extra["behaviours_replayed"] = len(trees)
    verdicts, tstates = traceval.validate("TranslateTrace", traces, DUMMY, timeout=3000)
    ctx.extra["trace_states"] = tstates
    judge(ctx, traces, verdicts)
    ctx.samples = [traces[0], traces[len(trees) // 2], traces[-1]]
    ctx.extra["rule"] = "one case = one configuration tree (TLC-enumerated up to depth 2 with <= 2 children per node, or random up to depth 5) rendered with concrete factories by seed; distinct non-trivial = distinct (tree, final state) containing at least one __type__ node"
    ctx.assumptions = ["factories are fixture callables with generated dotted names (function, class, nested attribute; raising ValueError/ConfigurationError; unresolvable module, missing attribute, non-callable)", "trees are finite and acyclic (no YAML aliases / shared sub-objects)", "BaseException subclasses raised by factories are out of scope"]


def replay(ctx, payload):
    t = execute(payload["case"])
    verdicts, _ = traceval.validate("TranslateTrace", [t], DUMMY)
    judge(ctx, [t], verdicts)
    ctx.samples = [t]
    ctx.level = "exploration"
    ctx.distinct.update({"replay-a", "replay-b"})
