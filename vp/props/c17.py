"""C17 - monitoring output is well-formed and lossless.

Specifications: specs/LineProtocol.tla (encoder transcription + independent reference decoder
Parse) and specs/JsonMerge.tla, each with a trace module.  TLC enumerates records over an
alphabet of every character class the line protocol distinguishes (plain, space, comma, equals,
double quote, single quote, backslash, non-ASCII), checks that Parse(Format(r)) = r on the
model, and emits every record; each is formatted by the real formatter through a real
LogRecord and the produced text goes back to TLC, where the reference decoder is applied to it.
"""
import json
import logging
import random

from .. import core, tlc, traceval

LP_INV = ["OneLine", "Decodes", "NameExact", "TagsExact", "FieldsExact", "TimeRoundedDown"]
NA = 200
ALPHA = [97, 32, 44, 61, 34, 39, 92, 9, NA]  # 9 = TAB: a control character the protocol does not treat specially


# ---------------------------------------------------------------- TLA+ generation
def lp_module(name, maxlen, cross, emit=True, thorough_pairs=False):
    L = ["---- MODULE %s ----" % name, "EXTENDS LineProtocol, Json"]
    L.append("Alpha == {97, SP, COMMA, EQ, DQ, SQ, BS, 9, NA}")
    L.append("Txt(n) == {s \\in UNION {[1..k -> Alpha] : k \\in 1..n} : s[Len(s)] # BS}")
    L.append("TxtE(n) == Txt(n) \\cup {<<>>}")
    L.append("A == <<97>>  B == <<98>>  C == <<99>>  D == <<100>>")
    L.append('CfgSet(keys) == [kind |-> "set", keys |-> keys, defaults |-> <<>>]')
    L.append('CfgNone == [kind |-> "none", keys |-> <<>>, defaults |-> <<>>]')
    L.append('CfgDict(df) == [kind |-> "dict", keys |-> <<>>, defaults |-> df]')
    L.append("R(n, cfg, args, cr, rs) == InitWith([name |-> n, cfg |-> cfg, args |-> args, created |-> cr, res |-> rs])")
    fams = [
        # one position varied exhaustively, the others fixed
        '\\E n \\in Txt(%d) : R(n, CfgSet(<<B>>), <<<<B, "str", A>>, <<C, "str", A>>>>, 61, 0)' % maxlen,
        '\\E k \\in Txt(%d) : k # C /\\ R(A, CfgSet(<<k>>), <<<<k, "str", A>>, <<C, "int", 7>>>>, 61, 0)' % maxlen,
        '\\E v \\in Txt(%d) : R(A, CfgSet(<<B>>), <<<<B, "str", v>>, <<C, "half", 2>>>>, 61, 10)' % maxlen,
        '\\E k \\in Txt(%d) : k # B /\\ R(A, CfgSet(<<B>>), <<<<B, "str", A>>, <<k, "bool", TRUE>>>>, 61, 0)' % maxlen,
        '\\E v \\in TxtE(%d) : R(A, CfgNone, <<<<C, "str", v>>>>, 61, 0)' % maxlen,
        # all five positions together, short strings
        '\\E n \\in Txt(%d), tk \\in Txt(%d), tv \\in Txt(%d), fk \\in Txt(%d), fv \\in TxtE(%d) : tk # fk /\\ R(n, CfgSet(<<tk>>), <<<<tk, "str", tv>>, <<fk, "str", fv>>>>, 61, 0)' % ((cross,) * 5),
    ] + ([
        # pairs of positions with strings of up to two characters (thorough)
        '\\E n \\in Txt(2), fv \\in TxtE(2) : R(n, CfgNone, <<<<C, "str", fv>>>>, 61, 0)',
        '\\E tk \\in Txt(2), tv \\in Txt(2) : tk # C /\\ R(A, CfgSet(<<tk>>), <<<<tk, "str", tv>>, <<C, "int", 7>>>>, 61, 0)',
        '\\E fk \\in Txt(2), fv \\in TxtE(2) : R(A, CfgNone, <<<<fk, "str", fv>>>>, 61, 0)',
        '\\E tv \\in Txt(2), fk \\in Txt(2) : fk # B /\\ R(A, CfgSet(<<B>>), <<<<B, "str", tv>>, <<fk, "str", A>>>>, 61, 0)',
    ] if thorough_pairs else []) + [
        # configurations: whitelist / defaults / overrides / non-string values / kinds / times
        '\\E dk \\in {"str", "int", "half", "bool"}, ov \\in BOOLEAN, ex \\in BOOLEAN, fk2 \\in {"str", "int", "half", "bool"}, cr \\in {0, 59, 60, 61, 119, 1700000000, 1700000059}, rs \\in {0, 1, 10, 60} :\n'
        '      LET dv == CASE dk = "str" -> <<97, SP>> [] dk = "int" -> 49 [] dk = "half" -> 8 [] dk = "bool" -> FALSE\n'
        '          fv == CASE fk2 = "str" -> <<SQ, 97>> [] fk2 = "int" -> 0 - 3 [] fk2 = "half" -> 0 [] fk2 = "bool" -> FALSE\n'
        '          args == (IF ov THEN <<<<B, "str", <<99, COMMA>>>>>> ELSE <<>>) \\o <<<<C, fk2, fv>>>> \\o (IF ex THEN <<<<D, "int", 12>>>> ELSE <<>>)\n'
        '      IN R(<<97, 98>>, CfgDict(<<<<B, dk, dv>>, <<A, "str", <<EQ>>>>>>), args, cr, rs)',
    ]
    L.append("MCInit == " + "\n    \\/ ".join("(" + f + ")" for f in fams))
    L.append("MCSpec == MCInit /\\ [][Next]_vars")
    if emit:
        L.append('EmitInit == act # "Init" \\/ PrintT(<<"INIT", ToJson(rec)>>)')
    L.append("====")
    return "\n".join(L)


def lp_cfg(emit=True):
    return "SPECIFICATION MCSpec\n" + "".join("INVARIANT %s\n" % i for i in LP_INV) + ("CONSTRAINT EmitInit\n" if emit else "")


def js_module(name, emit=True):
    L = ["---- MODULE %s ----" % name, "EXTENDS JsonMerge, Json"]
    L.append('JKeys == {"time", "message", "k1", "k2"}')
    L.append("Items(ks) == {s \\in UNION {[1..n -> (ks \\X {1, 2})] : n \\in 0..2} : \\A i, j \\in DOMAIN s : i # j => s[i][1] # s[j][1]}")
    L.append("MCInit == \\E df \\in Items(JKeys), da \\in Items(JKeys), t \\in BOOLEAN : InitWith([defaults |-> df, addtime |-> t, data |-> [i \\in DOMAIN da |-> <<da[i][1], da[i][2] + 2>>]])")
    L.append("MCSpec == MCInit /\\ [][Next]_vars")
    if emit:
        L.append('EmitInit == act # "Init" \\/ PrintT(<<"INIT", ToJson(jrec)>>)')
    L.append("====")
    return "\n".join(L)


def js_cfg():
    return "SPECIFICATION MCSpec\nINVARIANT MergeOrder\nCONSTRAINT EmitInit\n"


# ---------------------------------------------------------------- driver
def text(codes, na_char):
    return "".join(na_char if c == NA else chr(c) for c in codes)


def pyval(kind, v, na_char):
    if kind == "str":
        return text(v, na_char)
    if kind == "int":
        return int(v)
    if kind == "half":
        return v + 0.5
    if kind == "whole":
        return float(v)
    return bool(v)


def lp_execute(rec, seed=0):
    from cobald.monitor.format_line import LineProtocolFormatter

    na_char = ["é", "\U0001f680", "中"][seed % 3]
    cfg = rec["cfg"]
    if cfg["kind"] == "none":
        tags = None
    elif cfg["kind"] == "set":
        keys = [text(k, na_char) for k in cfg["keys"]]
        # "an iterable of keys": a set, a list, a tuple - or a one-shot iterator
        tags = [set(keys), list(keys), tuple(keys), iter(list(keys)), (k for k in list(keys)), map(str, list(keys))][seed % 6]
    else:
        tags = {text(k, na_char): pyval(kind, v, na_char) for k, kind, v in cfg["defaults"]}
    exc = ""
    try:
        fmt = LineProtocolFormatter(tags=tags, resolution=(rec["res"] if rec["res"] else None))
        args = {text(k, na_char): pyval(kind, v, na_char) for k, kind, v in rec["args"]}
        if seed % 2 == 0 and cfg["kind"] != "none":
            # the formatter is used for a stream of records: an earlier record that sets every
            # whitelisted tag must leave no trace in the next one (Format is a function of the
            # record and the configuration only)
            wl = [text(k, na_char) for k in cfg["keys"]] + [text(k, na_char) for k, _, _ in cfg["defaults"]]
            primer = {k: "earlier" for k in wl}
            primer["zz"] = 1
            fmt.format(logging.LogRecord("vp.monitor", logging.INFO, "vp", 0, "primer", (primer,), None))
        r = logging.LogRecord("vp.monitor", logging.INFO, "vp", 0, text(rec["name"], na_char), (args,), None)
        r.created = rec["created"] + (0.25 if seed % 2 else 0.0)
        if seed % 3 == 1:
            # one record usually reaches several handlers: formatting it must not consume it
            LineProtocolFormatter(tags=tags, resolution=(rec["res"] if rec["res"] else None)).format(r)
        out = fmt.format(r)
    except Exception as e:  # noqa
        exc = type(e).__name__
        out = "!raised " + exc
    if not isinstance(out, str):
        out = "!not-a-string"
    body = out
    if rec["res"] and exc == "":
        # the time stamp is the last space-separated token: nanoseconds = seconds + nine zeros
        head, sep, last = out.rstrip("\n").rpartition(" ")
        if sep and last.isdigit() and last.endswith("000000000") and len(last) > 9:
            body = head + " " + last[:-9] + ("\n" if out.endswith("\n") else "")
        elif sep and last == "0":
            body = head + " 0" + ("\n" if out.endswith("\n") else "")
        else:
            body = head + " ?" + last + ("\n" if out.endswith("\n") else "")
    codes = [(ord(ch) if ord(ch) < 128 else NA) for ch in body]
    # no line for a record of this size is anywhere near this long (every character escaped,
    # every key a tag AND a field): what comes beyond is cut off - the rest no longer decodes
    longest = 64 + 8 * (len(rec["name"]) + sum(len(k) + len(str(v)) + 4 for k, _, v in rec["args"]) + sum(len(k) + len(str(v)) + 4 for k, _, v in cfg.get("defaults", ())) + sum(len(k) + 2 for k in cfg.get("keys", ())))
    codes = codes[:longest]
    return {"rec": rec, "line": codes, "text": out[:4000], "exc": exc, "seed": seed}


def js_execute(rec, seed=0):
    from cobald.monitor.format_json import JsonFormatter

    msg = "the message"
    defaults = {k: "tok%d" % v for k, v in rec["defaults"]}
    data = {k: "tok%d" % v for k, v in rec["data"]}
    if seed % 4 == 1 and seed % 3 != 2 and "7" not in data and "7" not in defaults:
        # a key that is no string next to the text keys: JSON spells it "7"
        data[7] = "tok77"
        rec = dict(rec, data=list(rec["data"]) + [["7", 77]])
    datefmt = [None, "%Y", "%H:%M"][seed % 3] if rec["addtime"] else ["", 0, False][seed % 3]
    exc = ""
    out_pairs, isobj = [], False
    try:
        fmt = JsonFormatter(fmt=dict(defaults) if (defaults or seed % 2) else None, datefmt=datefmt)
        r = logging.LogRecord("vp.monitor", logging.INFO, "vp", 0, msg, (data,) if data else ({},), None)
        if seed % 2 == 0:
            # the formatter serves a stream of records: an earlier one in the same second
            # (other milliseconds, other data) must leave no trace in this one
            r0 = logging.LogRecord("vp.monitor", logging.INFO, "vp", 0, "earlier", ({"k1": "tok9", "zz": "tok8"},), None)
            r0.created = float(int(r.created)) + 0.004
            r0.msecs = 4.0
            r.created = float(int(r.created)) + 0.5
            r.msecs = 500.0
            fmt.format(r0)
        if seed % 3 == 2 and data:
            # the record was formatted for another handler (line protocol, every key a tag) before
            from cobald.monitor.format_line import LineProtocolFormatter

            LineProtocolFormatter(tags=set(data)).format(r)
        s = fmt.format(r)
        obj = json.loads(s)
        isobj = isinstance(obj, dict) and "\n" not in s
        if isobj:
            # the time the logging module itself would print for this record
            tstr = logging.Formatter(datefmt=(datefmt or None)).formatTime(r, datefmt or None) if rec["addtime"] else None
            for k, v in obj.items():
                if isinstance(v, str) and v.startswith("tok") and v[3:].isdigit():
                    tok = int(v[3:])
                elif v == msg:
                    tok = 101
                elif tstr is not None and v == tstr:
                    tok = 100
                else:
                    tok = 999
                out_pairs.append([k, tok])
    except Exception as e:  # noqa
        exc = type(e).__name__
    return {"rec": rec, "out": out_pairs, "object": bool(isobj), "exc": exc, "seed": seed}


def random_lp(rnd):
    def txt(maxlen, empty=False):
        n = rnd.randrange(0 if empty else 1, maxlen + 1)
        s = [rnd.choice(ALPHA + [97, 98, 99]) for _ in range(n)]
        while s and s[-1] == 92:
            s[-1] = rnd.choice([97, 32, 44, 61, 34, 39, NA])
        return s

    def item(key):
        kind = rnd.choice(["str", "str", "int", "half", "bool", "whole", "int"])
        # small numbers on purpose: 0 / 1 / 0.0 / 1.0 / False / True compare (and hash) equal in Python
        small = rnd.random() < 0.5
        v = (txt(6, empty=True) if kind == "str" else (rnd.randrange(0, 2) if small else rnd.randrange(-50, 500)) if kind == "int"
             else rnd.randrange(0, 500) if kind == "half" else rnd.randrange(0, 3) if kind == "whole" else rnd.random() < 0.5)
        return [key, kind, v]

    keys = []
    while len(keys) < rnd.randrange(1, 5):
        k = txt(5)
        if k not in keys:
            keys.append(k)
    ntag = rnd.randrange(0, len(keys))
    tagkeys, fieldkeys = keys[:ntag], keys[ntag:]
    args = []
    for k in fieldkeys:
        args.append(item(k))
    kind = rnd.choice(["none", "set", "dict"]) if tagkeys else "none"
    cfg = {"kind": kind, "keys": [], "defaults": []}
    if kind == "set":
        cfg["keys"] = tagkeys
        for k in tagkeys:
            if rnd.random() < 0.8:
                it = item(k)
                if it[1] == "str" and not it[2]:
                    it[2] = [97]
                args.append(it)
    elif kind == "dict":
        for k in tagkeys:
            it = item(k)
            if it[1] == "str" and not it[2]:
                it[2] = [98]
            cfg["defaults"].append(it)
            if rnd.random() < 0.5:
                it2 = item(k)
                if it2[1] == "str" and not it2[2]:
                    it2[2] = [99]
                args.append(it2)
    else:
        args += [item(k) for k in tagkeys]
    rnd.shuffle(args)
    return {"name": txt(8), "cfg": cfg, "args": args, "created": rnd.choice([0, 1, 59, 61, 3599, 86400, 1700000000 + rnd.randrange(0, 100000)]), "res": rnd.choice([0, 0, 1, 10, 60, 3600])}


def judge(ctx, kind, traces, verdicts):
    for tr, v in zip(traces, verdicts):
        ctx.traces_total += 1
        ctx.events_total += 1
        if v.accepted:
            ctx.traces_accepted += 1
        if v.nc is not None:
            ctx.traces_nc += 1
        for name in sorted({n for _, n in v.pv}):
            fp = {"invariant": name, "format": kind}
            if tr["exc"]:
                fp["exception"] = tr["exc"]
            if kind == "line":
                what = "record %s -> %r violates %s" % (json.dumps(tr["rec"]), tr["text"], name)
            else:
                what = "record %s -> %s violates %s" % (json.dumps(tr["rec"]), tr["out"], name)
            ctx.add_violation(name, fp, what, {"kind": kind, "rec": tr["rec"], "seed": tr["seed"]}, detail={"trace": {k: tr[k] for k in tr if k != "rec"}})
        if v.nc is not None and not v.pv:
            ctx.add_drift("%s output for %s is not what the specification's encoder decodes to" % (kind, json.dumps(tr["rec"])[:400]), {"kind": kind, "rec": tr["rec"], "seed": tr["seed"]})
        ctx.note_distinct([kind, tr["rec"]])


def run(ctx):
    thorough = ctx.tier == "thorough"
    rnd = random.Random(ctx.seed)
    # (cross = 2 would be 63^5 ~ 10^9 records: the joint family stays at single characters,
    #  thorough adds all PAIRS of positions with strings up to two characters)
    maxlen, cross = (4, 1) if thorough else (3, 1)
    res = tlc.run("MCLP", lp_cfg(), module_text=lp_module("MCLP", maxlen, cross, thorough_pairs=thorough), workers=1, timeout=3000, heap="8g")
    ctx.model_must_hold("LineProtocol model", res)
    ctx.add_model_run("LineProtocol.tla/strings<=%d per position, cross<=%d" % (maxlen, cross), res)
    recs = [json.loads(p[1]) for p in res.prints if p[0] == "INIT"]
    ctx.extra["records_emitted"] = len(recs)
    budget = 60000 if thorough else 9000
    if len(recs) > budget:
        recs = rnd.sample(recs, budget)
    lp_traces = [lp_execute(r, ctx.seed + i) for i, r in enumerate(recs)]
    for i in range(10000 if thorough else 2000):
        lp_traces.append(lp_execute(random_lp(rnd), ctx.seed + i))
    v1, st1 = traceval.validate("LineProtocolTrace", [{"rec": t["rec"], "line": t["line"]} for t in lp_traces], "", timeout=3000)
    judge(ctx, "line", lp_traces, v1)
    res = tlc.run("MCJS", js_cfg(), module_text=js_module("MCJS"), workers=1, timeout=3000)
    ctx.model_must_hold("JsonMerge model", res)
    ctx.add_model_run("JsonMerge.tla/all default/data key sets over {time,message,k1,k2}", res)
    jrecs = [json.loads(p[1]) for p in res.prints if p[0] == "INIT"]
    js_traces = [js_execute(r, ctx.seed + i) for i, r in enumerate(jrecs)]
    v2, st2 = traceval.validate("JsonMergeTrace", [{"rec": t["rec"], "out": t["out"], "object": t["object"]} for t in js_traces], "", timeout=3000)
    judge(ctx, "json", js_traces, v2)
    ctx.extra["trace_states"] = st1 + st2
    ctx.extra["behaviours_replayed"] = len(recs) + len(jrecs)
    ctx.samples = [{k: lp_traces[0][k] for k in ("rec", "text")}, {k: lp_traces[-1][k] for k in ("rec", "text")}, js_traces[len(js_traces) // 2]]
    ctx.extra["rule"] = "one case = one record (name, tag configuration, argument mapping, time, resolution) enumerated by TLC over the 8-class alphabet or drawn at random, formatted by the real formatter; distinct non-trivial = distinct records"
    ctx.assumptions = [
        "strings over 8 character classes (plain, space, comma, equals, double quote, single quote, backslash, non-ASCII), <= 3 (thorough 4) characters per position exhaustively, <= 8 at random",
        "excluded as the property says: line breaks, trailing backslash, '%' in the name, keys colliding with LogRecord attributes; also empty names/keys/tag values and records without fields, which the protocol cannot express",
        "numbers are compared by value (7, 7i and 7.0 are the same number); the nanosecond time stamp is checked as whole seconds followed by nine zeros",
    ]


def replay(ctx, payload):
    c = payload["case"]
    if c["kind"] == "line":
        t = lp_execute(c["rec"], c["seed"])
        v, _ = traceval.validate("LineProtocolTrace", [{"rec": t["rec"], "line": t["line"]}], "")
    else:
        t = js_execute(c["rec"], c["seed"])
        v, _ = traceval.validate("JsonMergeTrace", [{"rec": t["rec"], "out": t["out"], "object": t["object"]}], "")
    judge(ctx, c["kind"], [t], v)
    ctx.samples = [{k: t[k] for k in t if k != "line"}]
    ctx.level = "exploration"
    ctx.distinct.update({"replay-a", "replay-b"})
