"""C14 - config sections are validated, then digested once each in constraint order.

Specification: specs/Sections.tla (+ SectionsTrace.tla).  TLC enumerates scenarios (plugin
sets, constraint graphs incl. absent names, required flags, key sets), checks the formulas
on the model for every call order the constraints allow, and emits every scenario; each is
executed on the real load_section_plugins + load_configuration with recording digests; the
observed call log and outcome go back to TLC (properties on observed state, order inferred).
"""
import itertools
import random

from .. import core, tlc, traceval

INVARIANTS = ["UnknownBeforeAnyDigest", "NoDigestWithUnknown", "MissingRequiredFails", "OncePresentOnly", "ContentExact", "ResultsKept", "OrderRespectsConstraints", "OutcomeDocumented"]
DUMMY = ' Names = {}\n Scenarios = {}'


def q(s):
    return '"%s"' % s


def sset(xs):
    return "{" + ", ".join(q(x) for x in xs) + "}"


def mc_module(name, installable, absent, max_cons, res_fixed, emit):
    names = installable + absent
    lines = ["---- MODULE %s ----" % name, "EXTENDS Sections, Json"]
    lines.append("MCNames == " + sset(names))
    lines.append("Installable == " + sset(installable))
    lines.append("ConsSets(p) == {c \\in SUBSET (MCNames \\ {p}) : Cardinality(c) <= %d}" % max_cons)
    if res_fixed:
        lines.append('ResSets(I) == {[p \\in I |-> IF p \\in {"a", "c"} THEN "val" ELSE "none"]}')
    else:
        lines.append('ResSets(I) == [I -> {"none", "val"}]')
    lines.append("FSet(I) == {f \\in [I -> SUBSET MCNames] : \\A p \\in I : f[p] \\in ConsSets(p)}")
    lines.append(
        "MCInit == \\E I \\in SUBSET Installable : \\E b \\in FSet(I) : \\E a \\in FSet(I) :\n"
        "    \\E r \\in [I -> BOOLEAN] : \\E v \\in ResSets(I) :\n"
        '    \\E k \\in SUBSET (I \\cup {"logging", "unk", "unk2"}) :\n'
        "    InitWith([inst |-> I, before |-> b, after |-> a, req |-> r, res |-> v, keys |-> k])"
    )
    lines.append("MCSpec == MCInit /\\ [][Next]_vars")
    if emit:
        lines.append('EmitInit == (calls # <<>> \\/ logpopped \\/ outcome # "running") \\/ PrintT(<<"INIT", ToJson(scn)>>)')
    lines.append("====")
    return "\n".join(lines)


def mc_cfg(emit):
    cfg = "SPECIFICATION MCSpec\nCONSTANTS\n Names <- MCNames\n Scenarios = {}\n"
    cfg += "".join("INVARIANT %s\n" % i for i in INVARIANTS)
    if emit:
        cfg += "CONSTRAINT EmitInit\n"
    return cfg


# ---------------------------------------------------------------- driver (real code)
CONTENT_KINDS = ["dict", "dict", "none", "zero", "emptydict", "emptylist", "false", "str"]


def make_content(kind, p):
    return {
        "dict": {"section-of": p, "n": [1, 2]},
        "none": None,
        "zero": 0,
        "emptydict": {},
        "emptylist": [],
        "false": False,
        "str": "content of " + p,
    }[kind]


class FakeEntryPoint:
    extras = None

    def __init__(self, name, obj):
        self.name = name
        self._obj = obj

    def load(self):
        return self._obj


def execute(scn, order_seed=0):
    """scn: {inst:[..], before:{p:[..]}, after:{p:[..]}, req:{p:bool}, res:{p:"none"|"val"}, keys:[..]}"""
    from cobald.daemon.core import config as core_config
    from cobald.daemon.config import mapping
    from cobald.daemon.plugins import constraints

    events = []
    # the section's content is opaque to the specification; the driver varies its concrete
    # value, including None and the falsy values, by seed
    crnd = random.Random(order_seed * 7919 + 13)
    kinds = scn.get("content") or {p: crnd.choice(CONTENT_KINDS) for p in scn["inst"]}
    tokens = {p: make_content(kinds[p], p) for p in scn["inst"]}

    # "val" = any result that is not None - also the falsy ones (0, False, "", [], {}, ())
    rtok = {p: (crnd.choice([0, False, "", [], {}, ()]) if crnd.random() < 0.4 else ("result", p)) for p in scn["inst"]}

    def make_digest(p):
        def digest(content):
            events.append({"e": "Digest", "p": p, "exact": bool(content is tokens[p] or (type(content) is type(tokens[p]) and content == tokens[p]))})
            return None if scn["res"][p] == "none" else rtok[p]

        # a plugin that has nothing to declare is usually a plain function without the
        # decorator: both spellings of "no constraints" must mean the same
        if not scn["before"][p] and not scn["after"][p] and not scn["req"][p] and crnd.random() < 0.7:
            return digest
        # (whatever is declared with its documented default - nothing before / after, not
        #  required - is left to the default)
        def names(xs):
            # "Iterable[str]": a list, a tuple, a set - or a one-shot iterator
            how = crnd.randrange(5)
            xs = list(xs)
            return [xs, tuple(xs), frozenset(xs), iter(xs), (x for x in xs)][how]
        kw = {}
        if scn["before"][p]:
            kw["before"] = names(scn["before"][p])
        if scn["after"][p]:
            kw["after"] = names(scn["after"][p])
        if scn["req"][p]:
            kw["required"] = True
        if crnd.random() < 0.25:
            # the plugin is a callable OBJECT, and one without a hash (a dataclass instance, say)
            fn = digest

            class Digest:
                __hash__ = None

                def __eq__(self, other):
                    return self is other

                def __call__(self, content):
                    return fn(content)
            digest = Digest()
        return constraints(**kw)(digest)

    eps = [FakeEntryPoint(p, make_digest(p)) for p in scn["inst"]]
    random.Random(order_seed).shuffle(eps)
    cfg = {}
    for k in scn["keys"]:
        if k == "logging":
            cfg[k] = {"version": 1, "disable_existing_loggers": False}
        elif k in tokens:
            cfg[k] = tokens[k]
        else:
            cfg[k] = {"stray": True}
    saved = core_config.get_entrypoints
    core_config.get_entrypoints = lambda group: list(eps)
    exc = None
    try:
        try:
            plugins = core_config.load_section_plugins("vp.fixture.sections")
            result = mapping.load_configuration(dict(cfg), plugins)
        except mapping.ConfigurationError as e:
            events.append({"e": "End", "outcome": "cfgerr", "kept": []})
            exc = "ConfigurationError"
        except Exception as e:  # anything else is not a documented outcome
            events.append({"e": "End", "outcome": "other", "kept": []})
            exc = type(e).__name__
        else:
            kept = []
            ok = isinstance(result, dict)
            if ok:
                for plug, val in result.items():
                    sec = getattr(plug, "section", None)
                    if sec in scn["inst"] and type(val) is type(rtok[sec]) and val == rtok[sec]:
                        kept.append(sec)
                    else:
                        kept.append("?%r" % (sec,))
            events.append({"e": "End", "outcome": "ok" if ok else "other", "kept": sorted(kept)})
    finally:
        core_config.get_entrypoints = saved
    tr = dict(scn)
    tr["content"] = kinds
    tr["events"] = events
    tr["exc"] = exc or ""
    return tr


def norm_scn(s):
    """scenario from TLC's ToJson (sets as arrays; empty functions as [] or {})"""
    inst = sorted(s["inst"])

    def fn(x, conv):
        if isinstance(x, list):  # function with empty domain
            return {}
        return {k: conv(v) for k, v in x.items()}

    return {
        "inst": inst,
        "before": fn(s["before"], sorted),
        "after": fn(s["after"], sorted),
        "req": fn(s["req"], bool),
        "res": fn(s["res"], str),
        "keys": sorted(s["keys"]),
    }


def random_scn(rnd, names, absent):
    inst = [n for n in names if rnd.random() < 0.8]
    allnames = names + absent
    # a random acyclic graph: constraints follow a hidden random permutation
    perm = list(allnames)
    rnd.shuffle(perm)
    pos = {n: i for i, n in enumerate(perm)}
    before = {p: [] for p in inst}
    after = {p: [] for p in inst}
    for p in inst:
        for o in allnames:
            if o == p or rnd.random() > 0.3:
                continue
            if pos[p] < pos[o]:
                before[p].append(o)
            else:
                after[p].append(o)
    keys = [k for k in inst + ["logging"] if rnd.random() < 0.7]
    if rnd.random() < 0.15:
        keys.append("unk")
        if rnd.random() < 0.5:
            keys += ["unk2", "another unknown section"][: rnd.randrange(1, 3)]
    return {
        "inst": inst,
        "before": {p: sorted(v) for p, v in before.items()},
        "after": {p: sorted(v) for p, v in after.items()},
        "req": {p: rnd.random() < 0.3 for p in inst},
        "res": {p: rnd.choice(["none", "val"]) for p in inst},
        "keys": sorted(keys),
    }


def fingerprint(tr, name):
    fp = {"invariant": name}
    if tr.get("exc") and tr["exc"] != "ConfigurationError":
        fp["exception"] = tr["exc"]
        absent_before = any(o not in tr["inst"] for p in tr["inst"] for o in tr["before"][p])
        fp["before_names_absent_plugin"] = absent_before
    return fp


def judge(ctx, traces, verdicts):
    for tr, v in zip(traces, verdicts):
        ctx.traces_total += 1
        ctx.events_total += len(tr["events"])
        if v.accepted:
            ctx.traces_accepted += 1
        if v.nc is not None:
            ctx.traces_nc += 1
        case = {k: tr[k] for k in ("inst", "before", "after", "req", "res", "keys", "content")}
        case["order_seed"] = tr.get("order_seed", 0)
        names = sorted({n for _, n in v.pv})
        for name in names:
            ctx.add_violation(name, fingerprint(tr, name), "scenario %s -> events %s%s violates %s" % (case, tr["events"], (" (raised %s)" % tr["exc"]) if tr.get("exc") else "", name), case, detail={"trace": tr})
        if v.nc is not None and not v.pv:
            ctx.add_drift("event %d %s of scenario %s is not a step of Sections.tla" % (v.nc[0], tr["events"][v.nc[0] - 1], case), case)
        if len(tr["inst"]) >= 1:
            ctx.note_distinct([case, tr["events"]])


def run(ctx):
    thorough = ctx.tier == "thorough"
    rnd = random.Random(ctx.seed)
    # (1)+(2) model check and emit scenarios: two installable plugins + one absent name, all
    # constraint sets; thorough adds three installable plugins with <= 1 constraint each way
    fams = [("MCSec2", ["a", "b"], ["z"], 3, False)]
    if thorough:
        fams.append(("MCSec3", ["a", "b", "c"], ["z"], 1, True))
    scns = []
    for name, inst, absent, maxc, resfixed in fams:
        res = tlc.run(name, mc_cfg(emit=True), module_text=mc_module(name, inst, absent, maxc, resfixed, True), workers=1, timeout=3000, heap="8g")
        ctx.model_must_hold("Sections model " + name, res)
        ctx.add_model_run("Sections.tla/%s installable=%s absent=%s max_constraints=%d" % (name, inst, absent, maxc), res)
        for p in res.prints:
            if p[0] == "INIT":
                import json

                scns.append(norm_scn(json.loads(p[1])))
    ctx.extra["scenarios_emitted"] = len(scns)
    budget = 60000 if thorough else 6000
    if len(scns) > budget:
        scns = rnd.sample(scns, budget)
    traces = []
    for i, s in enumerate(scns):
        t = execute(s, order_seed=ctx.seed + i)
        t["order_seed"] = ctx.seed + i
        traces.append(t)
    ctx.extra["behaviours_replayed"] = len(traces)
    # (3) random larger scenarios (4 plugins, 2 absent names, denser graphs)
    for i in range(4000 if thorough else 800):
        s = random_scn(rnd, ["a", "b", "c", "d"], ["y", "z"])
        t = execute(s, order_seed=ctx.seed + i)
        t["order_seed"] = ctx.seed + i
        traces.append(t)
    verdicts, tstates = traceval.validate("SectionsTrace", traces, DUMMY, timeout=3000)
    ctx.extra["trace_states"] = tstates
    judge(ctx, traces, verdicts)
    ctx.samples = [traces[0], traces[len(traces) // 2], traces[-1]]
    ctx.extra["rule"] = "one case = one scenario (plugin set, constraints, required flags, digest results, config keys) enumerated by TLC or drawn at random, executed on the real loader; distinct non-trivial = distinct (scenario, observed events) with at least one installed plugin"
    ctx.assumptions = ["entry points are provided to load_section_plugins by replacing the module-level get_entrypoints (discovery order shuffled by seed)", "constraint graphs are acyclic (the property's quantifier)", "<= 4 installed plugins, <= 2 absent names"]


def replay(ctx, payload):
    case = payload["case"]
    t = execute(case, order_seed=case.get("order_seed", 0))
    t["order_seed"] = case.get("order_seed", 0)
    verdicts, _ = traceval.validate("SectionsTrace", [t], DUMMY)
    judge(ctx, [t], verdicts)
    ctx.samples = [t]
    ctx.level = "exploration"
    ctx.distinct.update({"replay-a", "replay-b"})
