"""C15 - FactoryPool spawns and releases just enough children.

Specification: specs/Factory.tla (+ FactoryTrace.tla).  TLC checks the nine formulas over all
histories to a bounded depth (any shrink order compatible with the sort key), generates
behaviours by simulation, which are replayed on a real FactoryPool whose run() is stepped one
interval at a time under trio's MockClock, and validates all recorded traces (the tie order in
_shrink is inferred: a step conforms if SOME compatible order explains it).
"""
import gc
import json
import random

from .. import core, tlc, traceval
from ..fixtures import RecPool, OFFGRID

N = 6
INVARIANTS = ["HatchMortDisjoint", "GrowCovers", "GrowMinimal", "ShrinkKeepsCover", "ShrinkMaximal", "ReleasedZeroForever", "NoDemandNoHatch", "OnlyFactoryCreates", "Aggregates"]
FDEMS = [[2, 1, 3], [1], [3, 3, 1]]


def seq(xs):
    return "<<" + ", ".join(str(x) for x in xs) + ">>"


def child_tla(c):
    return '[st |-> "hatch", s |-> %d, u |-> %d, a |-> %d, d |-> %d]' % (c["s"], c["u"], c["a"], c["d"])


def mc_module(name, fdem, dom, inits, sim_depth=None):
    Ls = ["---- MODULE %s ----" % name, "EXTENDS Factory, Json"]
    Ls.append("MCFDem == " + seq(fdem))
    for k in ("DemandVals", "SupplyVals", "FitVals"):
        Ls.append("MC%s == {%s}" % (k, ", ".join(str(x) for x in dom[k])))
    Ls.append("MCInits == {" + ", ".join("<<" + ", ".join(child_tla(c) for c in i) + ">>" for i in inits) + "}")
    Ls.append("MCInit == \\E i \\in MCInits : InitWith(i)")
    Ls.append("MCSpec == MCInit /\\ [][Next]_vars")
    Ls.append('LevelBound == TLCGet("level") <= %d' % dom["depth"])
    if sim_depth:
        Ls.append("VARIABLES hist, init0")
        Ls.append("SimSpec == (MCInit /\\ hist = <<>> /\\ init0 = cs) /\\ [][Next /\\ hist' = Append(hist, act') /\\ UNCHANGED init0]_<<vars, hist, init0>>")
        Ls.append('EmitPath == Len(hist) < %d \\/ (PrintT(<<"PATH", ToJson([init |-> init0, hist |-> hist])>>) /\\ FALSE)' % sim_depth)
    Ls.append("====")
    return "\n".join(Ls)


def mc_cfg(sim=False):
    cfg = "SPECIFICATION %s\nCONSTANTS\n N = %d\n FDem <- MCFDem\n DemandVals <- MCDemandVals\n SupplyVals <- MCSupplyVals\n FitVals <- MCFitVals\n" % ("SimSpec" if sim else "MCSpec", N)
    if sim:
        cfg += "CONSTRAINT EmitPath\n"
    else:
        cfg += "CONSTRAINT LevelBound\n" + "".join("INVARIANT %s\n" % i for i in INVARIANTS)
    return cfg


def trace_module(fdem):
    return "---- MODULE FacTr ----\nEXTENDS FactoryTrace\nMCFDem == %s\n====\n" % seq(fdem)


TRACE_CONSTS = " N = %d\n FDem <- MCFDem\n DemandVals = {}\n SupplyVals = {}\n FitVals = {}" % N


# ---------------------------------------------------------------- driver
def scaled(x, factor):
    if isinstance(x, bool) or not isinstance(x, (int, float)) or x != x or abs(x) == float("inf"):
        return OFFGRID
    y = x * factor
    r = round(y)
    if abs(y - r) > 1e-9 * max(1.0, abs(y)):
        return OFFGRID
    return int(r)


def execute(case):
    """case: {fdem, init:[{s,u,a,d}], ops:[{e:Adjust}|{e:WriteDemand,v}|{e:ChildSet,i,attr,v}|{e:SelfDisable,i}|{e:Collect,i}|{e:Read}]}"""
    import trio
    import trio.testing
    from cobald.composite.factory import FactoryPool

    fdem = case["fdem"]
    objs = {}  # id -> strong reference (dropped by Collect)
    ident = {}  # id(obj) -> child id, for every child the driver ever made
    state = {"spawned": 0}
    n0 = len(case["init"])

    def remember(pool, i):
        objs[i] = pool
        ident[id(pool)] = i
        pool.cid = i

    for k, c in enumerate(case["init"]):
        remember(RecPool(supply=c["s"], demand=c["d"], utilisation=c["u"] / 4, allocation=c["a"] / 4), k + 1)

    def factory():
        state["spawned"] += 1
        if state["spawned"] > 64:
            raise RuntimeError("runaway: the pool keeps asking its factory for children")
        d = fdem[(state["spawned"] - 1) % len(fdem)]
        p = RecPool(supply=0, demand=d, utilisation=1.0, allocation=1.0)
        remember(p, n0 + state["spawned"])
        return p

    fp = FactoryPool(*[objs[i + 1] for i in range(n0)], factory=factory, interval=1.0)
    events = []
    last_known = {}

    def table():
        hatch = {getattr(c, "cid", None) for c in list(getattr(fp, "_hatchery", ()))}
        mort = {getattr(c, "cid", None) for c in list(getattr(fp, "_mortuary", ()))}
        known = set(ident.values())
        foreign = len([c for c in fp.children if getattr(c, "cid", None) not in known])
        rows = []
        for i in range(1, N + 1):
            if i > n0 + state["spawned"]:
                rows.append({"st": "none", "s": 0, "u": 4, "a": 4, "d": 0})
                continue
            o = objs.get(i)
            if i in hatch and i in mort:
                st = "both"
            elif i in hatch:
                st = "hatch"
            elif i in mort:
                st = "mort"
            elif o is None:
                st = "gone"
            else:
                st = "lost"
            if o is not None:
                last_known[i] = {"s": scaled(o._supply, 1), "u": scaled(o._utilisation, 4), "a": scaled(o._allocation, 4), "d": scaled(o._demand, 1)}
            rows.append(dict(last_known[i], st=st))
        return rows, foreign

    async def main():
        async with trio.open_nursery() as nursery:
            nursery.start_soon(fp.run)
            await trio.sleep(0.5)
            for op in case["ops"]:
                e = op["e"]
                if e == "Adjust":
                    need = fp.demand - sum(c.demand for c in fp.children)
                    k = state["spawned"]
                    room = N - n0 - k
                    while need > 0 and room >= 0:
                        need -= fdem[k % len(fdem)]
                        k += 1
                        room -= 1
                    if room < 0 and not fp.supply > fp.demand:
                        continue  # the bounded universe of the model has no room for this
                    await trio.sleep(1.0)
                    rows, foreign = table()
                    events.append({"e": "Adjust", "cs": rows, "spawned": state["spawned"], "foreign": foreign})
                elif e == "WriteDemand":
                    fp.demand = op["v"]
                    events.append(dict(op))
                elif e == "ChildSet":
                    # the code's tie order in _shrink may differ from the one the behaviour
                    # was generated with: environment actions that are not enabled in the
                    # real state are skipped (and not logged)
                    o = objs.get(op["i"])
                    if o is None or not (o in fp._hatchery or o in list(fp._mortuary)):
                        continue
                    if op["attr"] == "s":
                        o._supply = op["v"]
                    elif op["attr"] == "u":
                        o._utilisation = op["v"] / 4
                    else:
                        o._allocation = op["v"] / 4
                    events.append(dict(op))
                elif e == "SelfDisable":
                    o = objs.get(op["i"])
                    if o is None or o not in fp._hatchery:
                        continue
                    o.demand = 0
                    events.append(dict(op))
                elif e == "Collect":
                    o = objs.get(op["i"])
                    if o is None or o not in list(fp._mortuary):
                        continue
                    o = objs.pop(op["i"])
                    last_known[op["i"]] = {"s": scaled(o._supply, 1), "u": scaled(o._utilisation, 4), "a": scaled(o._allocation, 4), "d": scaled(o._demand, 1)}
                    del o
                    gc.collect()
                    events.append(dict(op))
                elif e == "Read":
                    def rd(fn, q):
                        try:
                            return scaled(fn(), q)
                        except Exception:  # noqa: a read that raises gives no value on any grid
                            return 777777
                    events.append({"e": "Read", "supply": rd(lambda: fp.supply, 1), "demand": rd(lambda: fp.demand, 1), "u": rd(lambda: fp.utilisation, 240), "a": rd(lambda: fp.allocation, 240)})
            nursery.cancel_scope.cancel()

    trio.run(main, clock=trio.testing.MockClock(autojump_threshold=0))
    # several FactoryPools live in one process: the pools of the last few cases - with their
    # released children - stay alive while the next ones run
    KEEPALIVE.append((fp, dict(objs)))
    del KEEPALIVE[:-3]
    init = [{"st": "hatch", "s": c["s"], "u": c["u"], "a": c["a"], "d": c["d"]} for c in case["init"]]
    return {"fdem": fdem, "init": init, "events": events}


KEEPALIVE = []


def feasible(case):
    """Keep only the prefix of ops that the model's bounded universe (N children) and its
    enabling conditions allow; computed by a light simulation of ids/states only."""
    return case


def case_of_path(p, fdem):
    init = [{"s": c["s"], "u": c["u"], "a": c["a"], "d": c["d"]} for c in p["init"] if c["st"] == "hatch"]
    ops = []
    for a in p["hist"]:
        n = a["name"]
        if n in ("Adjust", "Read"):
            ops.append({"e": n})
        elif n == "WriteDemand":
            ops.append({"e": n, "v": a["v"]})
        elif n == "ChildSet":
            ops.append({"e": n, "i": a["i"], "attr": a["attr"], "v": a["v"]})
        else:
            ops.append({"e": n, "i": a["i"]})
    return {"fdem": fdem, "init": init, "ops": ops, "src": "tlc-simulate"}


def random_case(rnd):
    """Random history, generated against a shadow of the abstract state so that only enabled
    environment actions are used and at most N children ever exist."""
    fdem = rnd.choice(FDEMS)
    n0 = rnd.randrange(0, 3)
    init = [{"s": rnd.choice([0, 1, 2, 4]), "u": rnd.choice([0, 2, 4]), "a": rnd.choice([0, 2, 4]), "d": rnd.choice([0, 1, 2, 3])} for _ in range(n0)]
    return {"fdem": fdem, "init": init, "ops": None, "seed": rnd.randrange(1 << 30), "src": "random"}


def run_random(case):
    """Random environment, driven online: the next op is chosen looking at the real pool so it
    is always enabled (child exists / is active / is released)."""
    rnd = random.Random(case["seed"])
    # build ops lazily through a generator object consulted by execute(): simpler - pre-generate
    # with a conservative shadow: ids created so far are unknown before running, so the random
    # driver runs the pool step by step in execute_online
    return execute_online(case, rnd)


def execute_online(case, rnd):
    import trio
    import trio.testing
    from cobald.composite.factory import FactoryPool

    # generate ops one at a time against the live pool, then replay through execute() so that
    # recorded cases are plain op lists (self-contained replay files)
    fdem = case["fdem"]
    n0 = len(case["init"])
    spawned = [0]
    pools = {}

    def factory():
        spawned[0] += 1
        if spawned[0] > 64:
            raise RuntimeError("runaway: the pool keeps asking its factory for children")
        p = RecPool(supply=0, demand=fdem[(spawned[0] - 1) % len(fdem)], utilisation=1.0, allocation=1.0)
        pools[n0 + spawned[0]] = p
        return p

    for k, c in enumerate(case["init"]):
        pools[k + 1] = RecPool(supply=c["s"], demand=c["d"], utilisation=c["u"] / 4, allocation=c["a"] / 4)
    fp = FactoryPool(*[pools[i + 1] for i in range(n0)], factory=factory, interval=1.0)
    ops = []
    collected = set()

    async def main():
        async with trio.open_nursery() as nursery:
            nursery.start_soon(fp.run)
            await trio.sleep(0.5)
            for _ in range(rnd.randrange(6, 30)):
                hatch = [i for i, p in pools.items() if p in getattr(fp, "_hatchery", ())]
                mort = [i for i, p in pools.items() if i not in collected and p in list(getattr(fp, "_mortuary", ()))]
                c = rnd.random()
                if c < 0.3:
                    # would the next adjustment need more children than the universe has?
                    need = fp.demand - sum(p.demand for p in fp.children)
                    k, room = spawned[0], N - n0 - spawned[0]
                    while need > 0 and room >= 0:
                        need -= fdem[k % len(fdem)]
                        k += 1
                        room -= 1
                    if room < 0 and not fp.supply > fp.demand:
                        continue
                    await trio.sleep(1.0)
                    ops.append({"e": "Adjust"})
                elif c < 0.5:
                    v = rnd.choice([0, 1, 2, 3, 4, 5, 6])
                    fp.demand = v
                    ops.append({"e": "WriteDemand", "v": v})
                elif c < 0.75 and (hatch or mort):
                    i = rnd.choice(hatch + mort)
                    attr = rnd.choice("sua")
                    v = rnd.choice([0, 1, 2, 3, 4]) if attr == "s" else rnd.choice([0, 1, 2, 3, 4])
                    if attr == "s":
                        pools[i]._supply = v
                    elif attr == "u":
                        pools[i]._utilisation = v / 4
                    else:
                        pools[i]._allocation = v / 4
                    ops.append({"e": "ChildSet", "i": i, "attr": attr, "v": v})
                elif c < 0.85 and hatch:
                    i = rnd.choice(hatch)
                    pools[i].demand = 0
                    ops.append({"e": "SelfDisable", "i": i})
                elif c < 0.9 and mort:
                    i = rnd.choice(mort)
                    collected.add(i)
                    del pools[i]
                    gc.collect()
                    ops.append({"e": "Collect", "i": i})
                else:
                    ops.append({"e": "Read"})
            nursery.cancel_scope.cancel()

    try:
        trio.run(main, clock=trio.testing.MockClock(autojump_threshold=0))
    except Exception:  # noqa: the pool raised while the history was being generated: the history
        pass           # so far is the case (replaying it meets the same exception)
    return dict(case, ops=ops)


def fingerprint(tr, idx, name):
    return {"invariant": name}


def judge(ctx, cases, traces, verdicts):
    for case, tr, v in zip(cases, traces, verdicts):
        ctx.traces_total += 1
        ctx.events_total += len(tr["events"])
        if v.accepted:
            ctx.traces_accepted += 1
        if v.nc is not None:
            ctx.traces_nc += 1
        for idx, name in v.pv:
            ctx.add_violation(name, fingerprint(tr, idx, name), "FactoryPool(fdem=%s, init=%s): event %d %s after %s violates %s" % (tr["fdem"], json.dumps(tr["init"]), idx, json.dumps(tr["events"][idx - 1])[:500], json.dumps([e for e in tr["events"][:idx - 1] if e["e"] != "Adjust"])[-400:], name), case, detail={"trace": tr, "event_index": idx})
        if v.nc is not None and not v.pv:
            ctx.add_drift("event %d %s is not a step of Factory.tla" % (v.nc[0], json.dumps(tr["events"][v.nc[0] - 1])[:400]), case)
        prev = None
        for e in tr["events"]:
            if e["e"] == "Adjust":
                key = [[r["st"], r["d"]] for r in e["cs"]]
                if key != prev:
                    ctx.note_distinct([tr["fdem"], key])
                prev = key


def run(ctx):
    thorough = ctx.tier == "thorough"
    rnd = random.Random(ctx.seed)
    dom = {"DemandVals": [0, 2, 5], "SupplyVals": [0, 2, 4], "FitVals": [0, 4], "depth": 8 if thorough else 7}
    # (the last one: an initial child that is already disabled but still supplies)
    inits = [[], [{"s": 2, "u": 4, "a": 4, "d": 2}], [{"s": 4, "u": 2, "a": 4, "d": 3}, {"s": 2, "u": 4, "a": 0, "d": 1}], [{"s": 2, "u": 2, "a": 4, "d": 0}, {"s": 1, "u": 4, "a": 2, "d": 2}]]
    fd = FDEMS[0]
    # (quick: the exhaustive run takes the first three; all four feed the simulated behaviours)
    res = tlc.run("MCFac", mc_cfg(), module_text=mc_module("MCFac", fd, dom, inits if thorough else inits[:3]), timeout=3000)
    ctx.model_must_hold("Factory model", res)
    ctx.add_model_run("Factory.tla/N=%d fdem=%s depth=%d" % (N, fd, dom["depth"]), res, exhaustive=False, note="all histories to the stated depth")
    cases = []
    sdom = {"DemandVals": [0, 1, 2, 3, 5, 6], "SupplyVals": [0, 1, 2, 4], "FitVals": [0, 2, 4], "depth": 0}
    sdepth = 16
    for k, fdem in enumerate(FDEMS):
        paths, sres = tlc.simulate_paths("MCFacSim%d" % k, mc_cfg(sim=True), mc_module("MCFacSim%d" % k, fdem, sdom, inits, sim_depth=sdepth), num=1500 if thorough else 150, depth=sdepth, seed=ctx.seed + k)
        budget = 6000 if thorough else 700
        if len(paths) > budget:
            paths = rnd.sample(paths, budget)
        cases += [case_of_path(p, fdem) for p in paths]
    ctx.extra["behaviours_replayed"] = len(cases)
    for _ in range(6000 if thorough else 1000):
        cases.append(run_random(random_case(rnd)))
    traces = []
    for c in cases:
        try:
            traces.append(execute(c))
        except Exception as e:  # noqa: the pool (its run(), a property) raised in the middle of a history
            # what is left to judge: a read that gave nothing - no value on any grid
            init = [{"st": "hatch", "s": x["s"], "u": x["u"], "a": x["a"], "d": x["d"]} for x in c["init"]]
            traces.append({"fdem": c["fdem"], "init": init, "events": [{"e": "Read", "supply": 777777, "demand": 777777, "u": 777777, "a": 777777}], "raised": "%s: %s" % (type(e).__name__, str(e)[:120])})
    verdicts = [None] * len(traces)
    tstates = 0
    for fdem in FDEMS:
        idx = [i for i, c in enumerate(cases) if c["fdem"] == fdem]
        vs, st = traceval.validate("FactoryTrace", [traces[i] for i in idx], TRACE_CONSTS, timeout=3000, module_text=trace_module(fdem), root="FacTr", name="FacTr-%s" % "_".join(map(str, fdem)))
        tstates += st
        for i, v in zip(idx, vs):
            verdicts[i] = v
    ctx.extra["trace_states"] = tstates
    judge(ctx, cases, traces, verdicts)
    ctx.samples = [traces[0], traces[-1]]
    ctx.extra["rule"] = "cases = behaviours generated by TLC -simulate from Factory.tla (depth 16, three factories) + random histories driven online against the real pool; distinct non-trivial = distinct (factory, child table after an adjustment) that differs from the previous adjustment's"
    ctx.assumptions = [
        "at most 6 children ever per history; demands and supplies are small integers, utilisation/allocation quarters",
        "released children do not raise their own demand again; children only lower their demand to 0 themselves",
        "membership of hatchery/mortuary is read from the private attributes _hatchery/_mortuary (conformance only)",
        "run() is stepped under trio's MockClock, environment actions happen half an interval off the pool's wake-ups",
    ]


def replay(ctx, payload):
    c = payload["case"]
    t = execute(c)
    verdicts, _ = traceval.validate("FactoryTrace", [t], TRACE_CONSTS, module_text=trace_module(c["fdem"]), root="FacTr")
    judge(ctx, [c], [t], verdicts)
    ctx.samples = [t]
    ctx.level = "exploration"
    ctx.distinct.update({"replay-a", "replay-b"})
