"""C12 - runtime lifecycle: exclusive accept, shutdown always completes, restart possible.

Runtime.tla / RuntimeTrace.tla with two runners; shapes = histories of accept / concurrent
accept / shutdown from another thread / SIGINT / failing payload, with payload populations at
shutdown time (none, sleeping coroutines, blocked thread, payloads being adopted concurrently),
then a second runner accepting after the first has ended.
"""
import itertools
import random

from ..rt import scen
from . import regkernel
from .rtcommon import HOWS, RT_ASSUMPTIONS, make_replay

NAMES = ["NoStrayStart", "AtMostOneAccepting", "GuardReleasedOnEveryExit", "SecondAcceptRejectedCleanly", "ShutdownDoesNotRaise", "ShutdownReturnsObserved", "TerminationObserved", "RestartPossible", "StopReturnsNormally"]
replay = make_replay(NAMES)


def shapes(thorough, rnd):
    out = []
    pops = [{}, {"a1": {"flavour": "asyncio", "cleanup": 1}, "t1": {"flavour": "trio", "shielded": 1}}, {"h1": {"flavour": "threading"}, "a1": {"flavour": "asyncio"}}, {"t1": {"flavour": "trio", "cleanup": 1}, "t2": {"flavour": "trio"}, "h1": {"flavour": "threading"}}]
    for n, (end, pop) in enumerate(itertools.product(["shutdown", "sigint", "fail"], pops)):
        payloads = {p: dict(v) for p, v in pop.items()}
        proto = [{"op": "accept"}]
        if end == "fail":
            payloads["f"] = {"flavour": scen.FLAVS[n % 3]}
            proto.append({"op": "end", "p": "f", "how": "exc:UserExc"})
        if pop:
            proto.insert(0, {"op": "adopt", "p": sorted(pop)[0]})
        out.append({"title": "ended by %s with %s" % (end, sorted(pop)), "payloads": payloads, "proto_script": proto, "hows": {p: HOWS for p in payloads},
                    # a failing payload may race a shutdown() from another thread
                    "allow": (("shutdown", "second") if end in ("shutdown", "fail") else ("sigint", "second")), "end": end, "block": "h1" if "h1" in pop else None})
    return out


def fix_script(base, script):
    """the model's second AcceptCall is a CONCURRENT accept when it comes while runner 1 is up;
    after runner 1 has ended every script tries a restart with a second runner"""
    out = []
    for o in script:
        out.append(o)
    b = base.get("block")
    if b and any(o["op"] == "wait_start" and o.get("p") == b for o in out):
        i = max(k for k, o in enumerate(out) if o["op"] == "wait_start" and o.get("p") == b)
        out.insert(i + 1, {"op": "block", "p": b})
        out = [o for k, o in enumerate(out) if not (o.get("p") == b and o["op"] in ("step", "end") and k > i)]
    if not any(o["op"] == "wait_end" for o in out):
        out = [o for o in out if o["op"] != "polls"]
        # nothing ended the runtime in this behaviour: end it the shape's way
        out.append({"op": "sigint"} if base["end"] == "sigint" else {"op": "shutdown", "ctx": "thread", "wait": True})
        out.append({"op": "wait_end", "timeout": 4.0})
    out += [{"op": "second_accept", "timeout": 0.6}, {"op": "sleep", "ms": 50}, {"op": "shutdown2"}, {"op": "sleep", "ms": 150}]
    return out


def run(ctx):
    thorough = ctx.tier == "thorough"
    rnd = random.Random(ctx.seed)
    sh = shapes(thorough, rnd)
    groups = {}
    for s in sh:
        s["mc_light"] = not thorough and len(s["payloads"]) > 2
        groups.setdefault(s["allow"], []).append(s)
    # shutdown() issued at once when the runner reports running, with the service loop held
    # right after it has set `running` (parked at the hook), in both orders
    extra = []
    for k in range(3):
        extra.append({"seed": ctx.seed + k, "jitter": 0.0, "payloads": {"a1": {"flavour": "asyncio"}},
                      "script": [{"op": "park", "point": "sr.svc.enter"}, {"op": "adopt", "p": "a1"}, {"op": "accept"}, {"op": "wait_park", "point": "sr.svc.enter"}, {"op": "shutdown", "ctx": "thread", "wait": False}, {"op": "sleep", "ms": 10 * (k + 1)}, {"op": "release", "point": "sr.svc.enter"}, {"op": "wait_end", "timeout": 4.0},
                                 {"op": "second_accept", "timeout": 0.6}, {"op": "sleep", "ms": 50}, {"op": "shutdown2"}, {"op": "sleep", "ms": 150}], "shape": "targeted-shutdown-at-running"})
    # shutdown() a second time after a clean first one (also after accept() has ended), and
    # a threading payload that raises a BaseException (KeyboardInterrupt, SystemExit, a custom
    # one) ends the run like any other failure; a restart is possible afterwards
    for how in ("base:KeyboardInterrupt", "base:SystemExit", "base:UserBase"):
        extra.append({"seed": ctx.seed, "jitter": 0.0, "payloads": {"f": {"flavour": "threading"}, "a1": {"flavour": "asyncio", "cleanup": 1}},
                      "script": [{"op": "adopt", "p": "a1"}, {"op": "adopt", "p": "f"}, {"op": "accept"}, {"op": "wait_running"}, {"op": "wait_start", "p": "a1"}, {"op": "wait_start", "p": "f"}, {"op": "end", "p": "f", "how": how}, {"op": "wait_end", "timeout": 4.0},
                                 {"op": "second_accept", "timeout": 0.6}, {"op": "sleep", "ms": 50}, {"op": "shutdown2"}, {"op": "sleep", "ms": 150}], "shape": "targeted-thread-payload-raises-base"})
    # the service loop itself fails (a service whose run attribute cannot be looked up):
    # accept() raises, and a shutdown() afterwards (or racing it) still returns
    for k in range(2):
        extra.append({"seed": ctx.seed + k, "jitter": 0.0, "payloads": {"a1": {"flavour": "asyncio", "cleanup": 1}}, "services": {"sbad": {"flavour": "trio", "bad_run": True, "immediate": "exc:UserExc"}},
                      "script": [{"op": "adopt", "p": "a1"}, {"op": "accept"}, {"op": "wait_running"}, {"op": "wait_start", "p": "a1"}, {"op": "new_service", "s": "sbad", "ctx": "driver"}]
                      + ([{"op": "wait_end", "timeout": 4.0}, {"op": "shutdown", "ctx": "thread", "wait": True}] if k == 0 else [{"op": "wait_start", "p": "sbad"}, {"op": "shutdown", "ctx": "thread", "wait": True}, {"op": "wait_end", "timeout": 4.0}])
                      + [{"op": "second_accept", "timeout": 0.6}, {"op": "sleep", "ms": 50}, {"op": "shutdown2"}, {"op": "sleep", "ms": 150}], "shape": "targeted-service-loop-fails"})
    # the polling interval of the service loop is a parameter: with accept_delay=0 the loop must
    # still be interruptible (SIGINT, failure, shutdown)
    for k, trig in enumerate(([{"op": "sigint"}], [{"op": "end", "p": "f", "how": "exc:UserExc"}], [{"op": "shutdown", "ctx": "thread", "wait": True}])):
        extra.append({"seed": ctx.seed + k, "jitter": 0.0, "accept_delay": 0, "payloads": {"f": {"flavour": "threading"}, "a1": {"flavour": "asyncio", "cleanup": 1}, "t1": {"flavour": "trio", "cleanup": 1}},
                      "script": [{"op": "adopt", "p": "a1"}, {"op": "adopt", "p": "t1"}, {"op": "adopt", "p": "f"}, {"op": "accept"}, {"op": "wait_running"}, {"op": "wait_start", "p": "a1"}, {"op": "wait_start", "p": "t1"}, {"op": "wait_start", "p": "f"}]
                      + trig + [{"op": "wait_end", "timeout": 4.0}, {"op": "second_accept", "timeout": 0.6}, {"op": "sleep", "ms": 50}, {"op": "shutdown2"}, {"op": "sleep", "ms": 150}], "shape": "targeted-zero-accept-delay"})
    # a second ServiceRunner instance whose accept() is refused keeps what was queued for IT:
    # neither the active runtime nor the runner that accepts afterwards starts it
    for f in scen.FLAVS:
        extra.append({"seed": ctx.seed, "jitter": 0.0, "payloads": {"a1": {"flavour": "asyncio"}, "q": {"flavour": f}},
                      "script": [{"op": "adopt", "p": "a1"}, {"op": "accept"}, {"op": "wait_running"}, {"op": "wait_start", "p": "a1"}, {"op": "adopt2", "p": "q"}, {"op": "second_accept", "timeout": 0.5},
                                 {"op": "step", "p": "a1"}, {"op": "shutdown", "ctx": "thread", "wait": True}, {"op": "wait_end", "timeout": 4.0},
                                 {"op": "second_accept", "timeout": 0.6}, {"op": "sleep", "ms": 150}, {"op": "shutdown2"}, {"op": "sleep", "ms": 150}], "shape": "targeted-refused-runner-keeps-its-queue"})
    # shutdown() racing a SIGINT: an asyncio payload that absorbs its first cancellation keeps the
    # close request of shutdown() pending while the interrupt tears the loop down - shutdown()
    # still returns normally
    for k in range(3):
        extra.append({"seed": ctx.seed + k, "jitter": 0.0, "payloads": {"a1": {"flavour": "asyncio", "swallow": 1 + k % 2, "cleanup": 1}, "t1": {"flavour": "trio", "cleanup": 1}},
                      "script": [{"op": "adopt", "p": "a1"}, {"op": "adopt", "p": "t1"}, {"op": "accept"}, {"op": "wait_running"}, {"op": "wait_start", "p": "a1"}, {"op": "wait_start", "p": "t1"},
                                 {"op": "shutdown", "ctx": "thread", "wait": False}, {"op": "sleep", "ms": 30 + 40 * k}, {"op": "sigint"}, {"op": "wait_end", "timeout": 4.0},
                                 {"op": "second_accept", "timeout": 0.6}, {"op": "sleep", "ms": 50}, {"op": "shutdown2"}, {"op": "sleep", "ms": 150}], "shape": "targeted-shutdown-racing-sigint"})
    # a payload that adopts another one from inside its own cancellation (on the loop thread)
    # while shutdown() is stopping the runners: shutdown() and accept() still end
    for f in ("asyncio", "trio"):
        for late in scen.FLAVS:
            extra.append({"seed": ctx.seed, "jitter": 0.0, "payloads": {"c1": {"flavour": f, "cleanup": 1, "adopt_in_cleanup": "late"}, "c2": {"flavour": f, "cleanup": 1}, "late": {"flavour": late}},
                          "script": [{"op": "adopt", "p": "c1"}, {"op": "adopt", "p": "c2"}, {"op": "accept"}, {"op": "wait_running"}, {"op": "wait_start", "p": "c1"}, {"op": "wait_start", "p": "c2"},
                                     {"op": "shutdown", "ctx": "thread", "wait": True}, {"op": "wait_end", "timeout": 4.0}, {"op": "second_accept", "timeout": 0.6}, {"op": "sleep", "ms": 50}, {"op": "shutdown2"}, {"op": "sleep", "ms": 150}],
                          "shape": "targeted-adopt-in-cleanup-during-shutdown"})
    # the same runtime is stopped gracefully, accepts again and is stopped gracefully again
    # (the second run is validated as an epoch of its own): shutdown() ends every run
    for k, f in enumerate(scen.FLAVS):
        extra.append({"seed": ctx.seed + k, "jitter": 0.0, "reaccept": True, "epoch": 2, "payloads": {"a1": {"flavour": "asyncio", "cleanup": 1}, "q": {"flavour": f, "cleanup": 1}, "t1": {"flavour": "trio", "cleanup": 1}},
                      "script": [{"op": "adopt", "p": "a1"}, {"op": "accept"}, {"op": "wait_running"}, {"op": "wait_start", "p": "a1"}, {"op": "shutdown", "ctx": "thread", "wait": True}, {"op": "wait_end", "timeout": 4.0},
                                 {"op": "adopt", "p": "q", "ctx": "thread", "force": True}, {"op": "adopt", "p": "t1", "ctx": "driver", "force": True}, {"op": "reaccept_start"},
                                 {"op": "wait_start", "p": "q", "force": True}, {"op": "wait_start", "p": "t1", "force": True}, {"op": "step", "p": "t1", "force": True},
                                 {"op": "shutdown", "ctx": "thread", "wait": True}, {"op": "reaccept_wait", "timeout": 4.0}], "shape": "targeted-stop-restart-stop"})
    # the first two accept() calls of a process at the same instant (tiny GIL switch interval):
    # exactly one of the runners accepts
    for k in range(60 if thorough else 24):
        extra.append({"seed": ctx.seed + k, "jitter": 0.0, "switchinterval": 1e-6, "payloads": {"a1": {"flavour": "asyncio"}},
                      "script": [{"op": "adopt", "p": "a1"}, {"op": "accept_pair", "ms": 250}, {"op": "shutdown2"}, {"op": "shutdown", "ctx": "thread", "wait": True}, {"op": "wait_end", "timeout": 4.0}, {"op": "sleep", "ms": 100}],
                      "shape": "targeted-first-two-accepts-at-once"})
    # a first run of the runtime ends by a failure, its second run is interrupted: the second
    # run ends without an error (validated as an epoch of its own)
    for k, f in enumerate(scen.FLAVS):
        extra.append({"seed": ctx.seed + k, "jitter": 0.0, "reaccept": True, "epoch": 2, "payloads": {"f": {"flavour": f}, "q": {"flavour": "asyncio", "cleanup": 1}},
                      "script": [{"op": "adopt", "p": "f"}, {"op": "accept"}, {"op": "wait_running"}, {"op": "wait_start", "p": "f"}, {"op": "end", "p": "f", "how": "exc:UserExc"}, {"op": "wait_end", "timeout": 4.0},
                                 {"op": "adopt", "p": "q", "ctx": "thread", "force": True}, {"op": "reaccept_start"}, {"op": "wait_start", "p": "q", "force": True},
                                 {"op": "sigint", "force": True}, {"op": "reaccept_wait", "timeout": 4.0}], "shape": "targeted-failure-restart-interrupt"})
    # payloads that swallow their first cancellation(s)
    for k in range(3):
        extra.append({"seed": ctx.seed + k, "jitter": 0.0, "payloads": {"a1": {"flavour": "asyncio", "swallow": k, "cleanup": 1}, "t1": {"flavour": "trio"}},
                      "script": [{"op": "adopt", "p": "a1"}, {"op": "adopt", "p": "t1"}, {"op": "accept"}, {"op": "wait_running"}, {"op": "wait_start", "p": "a1"}, {"op": "shutdown", "ctx": "thread", "wait": True}, {"op": "wait_end", "timeout": 4.0},
                                 {"op": "shutdown", "ctx": "thread", "wait": True}, {"op": "second_accept", "timeout": 0.6}, {"op": "sleep", "ms": 50}, {"op": "shutdown2"}, {"op": "sleep", "ms": 150}], "shape": "targeted-double-shutdown"})
        extra.append({"seed": ctx.seed + k, "jitter": 0.0, "payloads": {"a1": {"flavour": "asyncio", "swallow": k + 1}},
                      "script": [{"op": "adopt", "p": "a1"}, {"op": "accept"}, {"op": "wait_running"}, {"op": "wait_start", "p": "a1"}, {"op": "sigint"}, {"op": "wait_end", "timeout": 4.0},
                                 {"op": "second_accept", "timeout": 0.6}, {"op": "sleep", "ms": 50}, {"op": "shutdown2"}, {"op": "sleep", "ms": 150}], "shape": "targeted-swallowed-cancel-sigint"})
    # three runners: the second is rejected, the third must be rejected as well
    extra.append({"seed": ctx.seed, "jitter": 0.0, "payloads": {"a1": {"flavour": "asyncio"}},
                  "script": [{"op": "adopt", "p": "a1"}, {"op": "accept"}, {"op": "wait_running"}, {"op": "second_accept", "timeout": 0.5}, {"op": "second_accept", "timeout": 0.5}, {"op": "wait_start", "p": "a1"}, {"op": "step", "p": "a1"}, {"op": "shutdown", "ctx": "thread", "wait": True}, {"op": "wait_end", "timeout": 4.0}], "shape": "targeted-two-rejected-accepts"})
    first = True
    for allow, ss in groups.items():
        scen.run_family(ctx, ss, names=NAMES, allow=allow, mc_invariants=["AtMostOneAccepting", "GuardReleasedOnEveryExit", "CleanupBeforeEnd"], mc_properties=["ShutdownReturns"], per_shape=10 if thorough else 4, depth=40, label="c12" + "".join(a[:2] for a in allow), script_hook=fix_script, extra_scenarios=(extra if first else ()))
        first = False
    # the stopping kernel at hook granularity (Stopping.tla): every transition of shutdown()
    # racing registrations is forced on the real runtime; shutdown() and accept() must both
    # return normally on every schedule
    regkernel.run_stopping(ctx, only=regkernel.C12_FORMULAS)
    # EndAfterShutdownReturned (accept() ends only after shutdown() has returned) and the
    # registration invariants of the stopping kernel for ANY number of submitters (TLAPS)
    from .. import tlaps
    ctx.extra["tlaps_proofs"] = [tlaps.prove("StoppingProofs")]
    ctx.extra["rule"] = "shapes = how runner 1 ends (shutdown from a thread / SIGINT / failing payload) x payload population at that time (none, sleeping coroutines with cleanup, blocked thread, payloads adopted concurrently) with a concurrent second accept placed by TLC anywhere in the behaviour, and always a restart attempt with a second runner afterwards; targeted: shutdown racing the service loop's first instant, several rejected accepts"
    ctx.assumptions = RT_ASSUMPTIONS + ["finitely many adoptions after shutdown() begins", "each history runs in its own process (the accept guard is process-wide); SIGINT is delivered to the main thread, which is the one inside accept()"]
