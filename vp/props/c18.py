"""C18 - YAML loading never instantiates anything that is not a registered plugin.

Specification: specs/YamlSafety.tla (+ trace module).  The loader is abstracted to the set of
non-plugin tag kinds its CLASS has constructors for; that set is probed from the real
COBalDLoader (after the plugins were registered) and handed to TLC, which checks OnlyRegistered /
BadIsRejected over all enumerated documents and emits them.  Each document is rendered to YAML
text and loaded through the real cobald.daemon.core.config.load in a sub-process armed with
canaries (recording callables / classes, an import hook, marker files); what fired goes back
to TLC as a trace.
"""
import json
import os
import random
import subprocess
import sys

from .. import core, tlc, traceval

BAD_KINDS = ["pyobject", "pyapply", "pynew", "pyname", "pymodule", "pytuple", "pycomplex", "pybytes", "pystr", "pyint", "pylist", "pydict", "pyunicode", "pylong", "pyfloat", "pybool", "pynone", "unregistered", "unregistered_dotted", "unregistered_prefixed"]
NAMED = ["pyobject", "pyapply", "pynew", "pyname", "pymodule", "unregistered_dotted"]
TARGETS = ["sentinel", "canary_class", "os_system", "unimported", "plugin_class"]
POSITIONS = ["pipeline_item", "lazy_arg", "lazy_nested", "lazyfn_nested", "eager_arg", "type_arg", "logging", "root", "mapkey", "section_value", "merge_value", "tagkey", "second_document", "dupkey", "merge_shadowed", "root_tagged", "dot_section", "last_seq_arg", "late_section"]
INVARIANTS = ["OnlyRegistered", "BadIsRejected"]


def tag_string(kind, target_name="x.y"):
    base = "tag:yaml.org,2002:python/"
    return {
        "pyobject": base + "object:" + target_name, "pyapply": base + "object/apply:" + target_name, "pynew": base + "object/new:" + target_name,
        "pyname": base + "name:" + target_name, "pymodule": base + "module:" + target_name.split(".")[0],
        "pytuple": base + "tuple", "pycomplex": base + "complex", "pybytes": base + "bytes", "pystr": base + "str", "pyint": base + "int",
        "pylist": base + "list", "pydict": base + "dict", "pyunicode": base + "unicode", "pylong": base + "long", "pyfloat": base + "float",
        "pybool": base + "bool", "pynone": base + "none", "unregistered": "!NotRegisteredAnywhere", "unregistered_dotted": "!" + target_name,
        # an unregistered tag that merely BEGINS with a registered one
        "unregistered_prefixed": "!VCtrlX",
    }[kind]


def mc_module(name, unsafe, two):
    q = lambda xs: "{" + ", ".join('"%s"' % x for x in xs) + "}"
    L = ["---- MODULE %s ----" % name, "EXTENDS YamlSafety, Json"]
    L.append("MCUnsafe == " + q(unsafe))
    L.append("MCBad == " + q(BAD_KINDS))
    L.append("Named == " + q(NAMED))
    L.append("MCTargets == " + q(TARGETS))
    L.append("Positions == " + q(POSITIONS))
    L.append('Plug(n) == [kind |-> "plugin", target |-> n, pos |-> "", shape |-> ""]')
    L.append('BadNode(k, t, p, s) == [kind |-> k, target |-> IF k \\in Named THEN t ELSE "none:" \\o k, pos |-> p, shape |-> s]')
    L.append('Doc(b) == IF b.pos = "lazyfn_nested" THEN <<Plug("plugin:VLazy"), b>> ELSE <<b>>')
    L.append('Control == <<Plug("plugin:VLazy"), Plug("plugin:VPool"), Plug("plugin:VCtrl")>>')
    one = '\\E k \\in MCBad, t \\in MCTargets, p \\in Positions, s \\in {"map", "seq", "scalar"} : (k \\notin Named => t = "sentinel") /\\ InitWith(Doc(BadNode(k, t, p, s)))'
    L.append("MCInit == InitWith(Control) \\/ (" + one + ")" + (
        ' \\/ (\\E k1 \\in {"pyapply", "unregistered"}, k2 \\in MCBad, t \\in MCTargets, p1 \\in {"lazy_arg", "logging"}, p2 \\in Positions : (k2 \\notin Named => t = "sentinel") /\\ InitWith(<<BadNode(k1, "sentinel", p1, "seq")>> \\o Doc(BadNode(k2, t, p2, "map"))))' if two else ""))
    L.append("MCSpec == MCInit /\\ [][Next]_vars")
    L.append('EmitInit == (i # 1 \\/ outcome # "loading") \\/ PrintT(<<"INIT", ToJson(doc)>>)')
    L.append("====")
    return "\n".join(L)


def mc_cfg(invariants=True):
    return "SPECIFICATION MCSpec\nCONSTANTS\n UnsafeHandled <- MCUnsafe\n BadKinds <- MCBad\n Targets <- MCTargets\n" + ("".join("INVARIANT %s\n" % i for i in INVARIANTS) if invariants else "") + "CONSTRAINT EmitInit\n"


# ---------------------------------------------------------------- rendering
def target_name(t, n):
    return {"sentinel": "vp.fx_canary.sentinel", "canary_class": "vp.fx_canary.Canary", "os_system": "os.system", "unimported": "vp_canary_unimported_%d.Thing" % n, "plugin_class": "cobald.decorator.standardiser.Standardiser"}.get(t, "vp.fx_canary.sentinel")


def bad_yaml(node, n, marker):
    kind, shape = node["kind"], node["shape"]
    tname = target_name(node["target"], n)
    tag = tag_string(kind, tname)
    tag = "!<%s>" % tag if not tag.startswith("!") else tag
    if node["target"] == "os_system" and kind in ("pyapply", "pynew", "pyobject"):
        body = '["touch %s"]' % marker
    elif kind in ("pyname", "pymodule", "pystr", "pyunicode", "pyint", "pylong", "pyfloat", "pybool", "pynone", "pycomplex", "pybytes"):
        body = {"pycomplex": "'1+2j'", "pybytes": "'YQ=='", "pyint": "'1'", "pylong": "'1'", "pyfloat": "'1.5'", "pybool": "'true'", "pynone": "''"}.get(kind, "''")
    elif kind in ("pytuple", "pylist"):
        body = "[1, 2]"
    elif kind == "pydict":
        body = "{a: 1}"
    else:
        body = {"map": "{a: 1}", "seq": "[1, 2]", "scalar": "''"}[shape]
    return "%s %s" % (tag, body)


def render(doc, n, marker):
    """abstract document -> YAML text"""
    return render_(doc, n, marker)


def render_(doc, n, marker):
    """abstract document (list of nodes) -> YAML text"""
    bads = [d for d in doc if d["kind"] != "plugin"]
    if not bads:
        return "__config_test:\n  k: !VLazy {x: 1}\npipeline:\n  - !VCtrl {a: 1}\n  - !VPool\n"
    sections = {"pipeline": ["!VCtrl {a: 1}", "!VPool"], "__config_test": {}, "logging": None, "root": None}
    lines = []
    for j, b in enumerate(bads):
        y = bad_yaml(b, n * 10 + j, marker)
        p = b["pos"]
        if p == "root":
            return y + "\n"
        if p == "pipeline_item":
            sections["pipeline"].insert(0, y)
        elif p == "lazy_arg":
            sections["pipeline"].insert(0, "!VCtrl {x%d: %s}" % (j, y))
        elif p == "lazy_nested":
            sections["pipeline"].insert(0, "!VCtrl {x%d: [1, {y: %s}]}" % (j, y))
        elif p == "lazyfn_nested":
            sections["__config_test"]["l%d" % j] = "!VLazy {x: [1, {y: %s}]}" % y
        elif p == "eager_arg":
            sections["__config_test"]["e%d" % j] = "!VEager {x: [%s]}" % y
        elif p == "type_arg":
            sections["pipeline"].insert(0, "{__type__: vp.fx_plugins.VCtrl, x%d: %s}" % (j, y))
        elif p == "logging":
            sections["logging"] = "{version: 1, x%d: %s}" % (j, y)
        elif p == "mapkey":
            sections["__config_test"]["? %s " % y] = "1"
        elif p == "section_value":
            sections["__config_test"]["s%d" % j] = y
        elif p == "tagkey":
            # the bad tag sits on a KEY directly below a registered tag
            sections["pipeline"].insert(0, "!VCtrl {? %s : 1}" % y if j % 2 == 0 else "!VEager {? %s : 1}" % y)
        elif p == "second_document":
            sections["_second"] = y
        elif p == "root_tagged":
            sections["_roottag"] = y.split(" ", 1)[0]
        elif p == "dot_section":
            # a top-level section with a dot name (a "hidden" block of anchors, say)
            sections["_dot"] = y
        elif p == "last_seq_arg":
            # the last positional argument of a registered tag written in sequence form
            sections["pipeline"].insert(0, "!VCtrl [1, %s]" % y if j % 2 == 0 else "!VEager [%s]" % y)
        elif p == "late_section":
            # the last section of a LARGE file: more than a mebibyte of comments lies between
            # the pipeline and it (a configuration is read to its end)
            sections["_late"] = y
        elif p == "dupkey":
            # a duplicate key: the earlier value is shadowed by the later one, but it is there
            sections["__config_test"]["d%d" % j] = "{k: %s, k: 1}" % y
        elif p == "merge_shadowed":
            # an entry of a merged mapping that an explicit key overrides
            sections["__config_test"]["o%d" % j] = "{<<: {k: %s}, k: 1}" % y
        elif p == "merge_value":
            sections["__config_test"]["m%d" % j] = "{<<: %s, b: 2}" % y
    if sections.get("_roottag"):
        # the tag sits on the ROOT mapping of an otherwise valid configuration
        lines.append("--- " + sections["_roottag"])
    if sections.get("_dot"):
        lines.append(".templates: " + sections["_dot"])
    if sections["logging"]:
        lines.append("logging: " + sections["logging"])
    if sections["__config_test"]:
        lines.append("__config_test:")
        for k, v in sections["__config_test"].items():
            lines.append("  %s: %s" % (k, v))
    lines.append("pipeline:")
    for it in sections["pipeline"]:
        lines.append("  - " + it)
    if sections.get("_late"):
        lines.append(("# " + "." * 126 + "\n") * (8400 if n % 2 == 0 else 3) + "zz_late: " + sections["_late"])
    if sections.get("_second"):
        # (a first document without any registered tag, so that nothing but the bad tag of
        #  the second document decides the outcome)
        lines = [l.replace("- !VCtrl {a: 1}", "- {__type__: vp.fx_plugins.VCtrl, a: 1}").replace("- !VPool", "- {__type__: vp.fx_plugins.VPool}") for l in lines]
        lines += ["---", "extra: " + sections["_second"]]
    return "\n".join(lines) + "\n"


# ---------------------------------------------------------------- worker (sub-process)
WORKER = r'''
import json, sys, os, importlib, importlib.abc
if os.environ.get("VP_NO_LIBYAML") == "1":
    sys.modules["yaml._yaml"] = None   # a PyYAML installation without the libyaml extension
class Hook(importlib.abc.MetaPathFinder):
    def __init__(self): self.seen = []
    def find_spec(self, name, path=None, target=None):
        if name.startswith("vp_canary_unimported"): self.seen.append(name)
        return None
hook = Hook(); sys.meta_path.insert(0, hook)
import vp.fx_canary as canary, vp.fx_plugins as plugins
from cobald.daemon.core.config import load, COBalDLoader
from cobald.daemon.config.yaml import load_configuration as yaml_load_configuration
import inspect as _inspect
DefaultLoader = _inspect.signature(yaml_load_configuration).parameters["loader"].default
from cobald.decorator import standardiser
_orig = standardiser.Standardiser.__init__
def _init(self, *a, **k):
    canary.FIRED.append("plugin_class"); return _orig(self, *a, **k)
standardiser.Standardiser.__init__ = _init
import os as _os
_sys = _os.system
def _system(cmd):
    canary.FIRED.append("os.system"); return _sys(cmd)
_os.system = _system
job = json.load(sys.stdin)
out = []
for item in job["items"]:
    path = os.path.join(job["dir"], "doc%d.yaml" % item["n"])
    with open(path, "w") as f: f.write(item["yaml"])
    del canary.FIRED[:]; del hook.seen[:]; plugins.reset()
    exc = ""
    try:
        if item.get("entry") == "yaml_default":
            # the YAML reader of the package on its own, with its DEFAULT loader
            yaml_load_configuration(path)
            outcome = "loaded"
        else:
            with load(path) as cfg:
                outcome = "loaded"
    except BaseException as e:
        outcome = "rejected"; exc = type(e).__module__ + "." + type(e).__name__
    fired = list(canary.FIRED) + ["import:" + s for s in hook.seen]
    if os.path.exists(item["marker"]):
        fired.append("marker-file"); os.unlink(item["marker"])
    out.append({"n": item["n"], "outcome": outcome, "exc": exc, "fired": fired, "plugins": [l[0] for l in plugins.LOG]})
probe = {}
for kind, tag in job["probe"].items():
    handled = tag in COBalDLoader.yaml_constructors or any(p is None or tag.startswith(p) for p in COBalDLoader.yaml_multi_constructors)
    probe[kind] = bool(handled)
    dh = tag in DefaultLoader.yaml_constructors or any(p is None or tag.startswith(p) for p in DefaultLoader.yaml_multi_constructors)
    probe["default:" + kind] = bool(dh)
json.dump({"results": out, "probe": probe}, sys.stdout)
'''


def run_docs(docs, seed, entry=None, no_libyaml=False):
    """render and load all documents in parallel sub-processes; returns (traces, probe)"""
    d = tlc.subdir("c18-docs")
    items = []
    for n, doc in enumerate(docs):
        marker = os.path.join(d, "marker_%d" % n)
        if entry == "yaml_default":
            # nothing but the bad node: no registered tag the default loader would stumble over
            b = [x for x in doc if x["kind"] != "plugin"][0]
            items.append({"n": n, "yaml": "__config_test:\n  k: %s\n" % bad_yaml(b, n * 10, marker), "marker": marker, "entry": entry})
        else:
            items.append({"n": n, "yaml": render(doc, n, marker), "marker": marker})
    probe_tags = {k: tag_string(k, "vp.fx_canary.sentinel") for k in BAD_KINDS}
    nproc = 12
    chunks = [items[i::nproc] for i in range(nproc)]
    env = core.child_env({"PYTHONPATH": os.pathsep.join([os.path.join(core.repo_root(), "src"), core.ROOT, os.path.join(core.ROOT, "fixture_dist")]), "VP_NO_LIBYAML": "1" if no_libyaml else "0"})
    procs = []
    for ch in chunks:
        p = subprocess.Popen([sys.executable, "-c", WORKER], stdin=subprocess.PIPE, stdout=subprocess.PIPE, stderr=subprocess.PIPE, env=env, text=True, cwd=d)
        procs.append((p, ch))
    for p, ch in procs:
        p.stdin.write(json.dumps({"items": ch, "dir": d, "probe": probe_tags}))
        p.stdin.close()
    results, probe = {}, None
    for p, ch in procs:
        out = p.stdout.read()
        err = p.stderr.read()
        p.wait()
        if p.returncode != 0 or not out.strip():
            raise tlc.MachineryError("C18 worker failed: %s" % err[-2000:])
        r = json.loads(out)
        probe = r["probe"]
        for x in r["results"]:
            results[x["n"]] = x
    traces = []
    for n, doc in enumerate(docs):
        r = results[n]
        events = []
        for pl in r["plugins"]:
            events.append({"e": "Effect", "target": "plugin:" + pl.replace("-failed", "")})
        targets_named = {target_name(b["target"], n * 10 + j): b["target"] for j, b in enumerate([x for x in doc if x["kind"] != "plugin"])}
        for f in r["fired"]:
            t = {"vp.fx_canary.sentinel": "sentinel", "vp.fx_canary.Canary": "canary_class", "os.system": "os_system", "marker-file": "os_system", "plugin_class": "plugin_class"}.get(f)
            if t is None and f.startswith("import:"):
                t = "unimported"
            events.append({"e": "Effect", "target": t or f})
        # an object of a typed python/* tag that made it into a loaded configuration counts too
        events.append({"e": "End", "outcome": r["outcome"]})
        traces.append({"doc": doc, "events": events, "yaml": items[n]["yaml"], "exc": r["exc"], "fired": r["fired"]})
    return traces, probe


def judge(ctx, traces, verdicts):
    for tr, v in zip(traces, verdicts):
        ctx.traces_total += 1
        ctx.events_total += len(tr["events"])
        if v.accepted:
            ctx.traces_accepted += 1
        if v.nc is not None:
            ctx.traces_nc += 1
        bads = [d for d in tr["doc"] if d["kind"] != "plugin"]
        for name in sorted({n for _, n in v.pv}):
            fp = {"invariant": name, "positions": sorted({b["pos"] for b in bads}), "fired": sorted(set(tr["fired"]))}
            ctx.add_violation(name, fp, "document\n%s-> %s %s, canaries fired: %s violates %s" % (tr["yaml"], tr["events"][-1]["outcome"], tr["exc"], tr["fired"], name), {"doc": tr["doc"]}, detail={"yaml": tr["yaml"], "events": tr["events"]})
        if v.nc is not None and not v.pv:
            ctx.add_drift("document %r: observed %s is not a behaviour of YamlSafety.tla" % (tr["yaml"], tr["events"]), {"doc": tr["doc"]})
        if bads:
            ctx.note_distinct([[(b["kind"], b["target"], b["pos"]) for b in bads], tr["events"][-1]["outcome"]])


def run(ctx):
    thorough = ctx.tier == "thorough"
    # (0) probe the real loader class (after plugins are registered by a real load())
    _, probe = run_docs([[{"kind": "plugin", "target": "plugin:VLazy", "pos": "", "shape": ""}]], ctx.seed)
    unsafe = sorted(k for k, h in probe.items() if h and not k.startswith("default:"))
    unsafe_default = sorted(k.split(":", 1)[1] for k, h in probe.items() if h and k.startswith("default:"))
    ctx.extra["loader_handles_non_plugin_kinds"] = unsafe
    ctx.extra["default_loader_of_config_yaml_handles_non_plugin_kinds"] = unsafe_default
    # (1) model check with the probed table, emitting the documents
    res = tlc.run("MCYS", mc_cfg(invariants=not unsafe), module_text=mc_module("MCYS", unsafe, thorough), workers=1, timeout=3000)
    if unsafe:
        tlc.require_ok(res, "YamlSafety emission")
        res2 = tlc.run("MCYSb", mc_cfg(invariants=True), module_text=mc_module("MCYSb", unsafe, False), workers=1, timeout=3000)
        ctx.extra["model_with_real_table_violates"] = res2.violated
    else:
        ctx.model_must_hold("YamlSafety model", res)
    ctx.add_model_run("YamlSafety.tla/one%s bad node; loader table probed from COBalDLoader: unsafe kinds %s" % (" or two" if thorough else "", unsafe), res)
    docs = [json.loads(p[1]) for p in res.prints if p[0] == "INIT"]
    ctx.extra["documents_emitted"] = len(docs)
    rnd = random.Random(ctx.seed)
    budget = 30000 if thorough else 4000
    if len(docs) > budget:
        docs = rnd.sample(docs, budget)
    traces, _ = run_docs(docs, ctx.seed)
    ctx.extra["behaviours_replayed"] = len(docs)
    consts = " UnsafeHandled = {%s}\n BadKinds = {}\n Targets = {%s}" % (", ".join('"%s"' % u for u in unsafe), ", ".join('"%s"' % t for t in TARGETS))
    verdicts, tstates = traceval.validate("YamlSafetyTrace", [{"doc": t["doc"], "events": t["events"]} for t in traces], consts, timeout=3000)
    ctx.extra["trace_states"] = tstates
    judge(ctx, traces, verdicts)
    # the package's YAML reader on its own (cobald.daemon.config.yaml.load_configuration with its
    # DEFAULT loader): the single-bad-node documents, reduced to the bad node
    singles = [d for d in docs if len([x for x in d if x["kind"] != "plugin"]) == 1 and [x for x in d if x["kind"] != "plugin"][0]["pos"] in ("section_value", "lazy_arg", "pipeline_item")]
    singles = [[x for x in d if x["kind"] != "plugin"] for d in singles]
    traces2, _ = run_docs(singles, ctx.seed, entry="yaml_default")
    consts2 = " UnsafeHandled = {%s}\n BadKinds = {}\n Targets = {%s}" % (", ".join('"%s"' % u for u in unsafe_default), ", ".join('"%s"' % t for t in TARGETS))
    verdicts2, tstates2 = traceval.validate("YamlSafetyTrace", [{"doc": t["doc"], "events": t["events"]} for t in traces2], consts2, timeout=3000, name="YamlSafetyTrace-default")
    ctx.extra["default_loader_documents"] = len(singles)
    judge(ctx, traces2, verdicts2)
    # the same documents (a sample) on a PyYAML installation without the libyaml extension: the
    # loader class - and so the constructor table - may be chosen differently there
    sample = docs[::7]
    traces3, probe3 = run_docs(sample, ctx.seed, no_libyaml=True)
    unsafe3 = sorted(k for k, h in probe3.items() if h and not k.startswith("default:"))
    ctx.extra["loader_handles_non_plugin_kinds_without_libyaml"] = unsafe3
    consts3 = " UnsafeHandled = {%s}\n BadKinds = {}\n Targets = {%s}" % (", ".join('"%s"' % u for u in unsafe3), ", ".join('"%s"' % t for t in TARGETS))
    verdicts3, _ = traceval.validate("YamlSafetyTrace", [{"doc": t["doc"], "events": t["events"]} for t in traces3], consts3, timeout=3000, name="YamlSafetyTrace-nolibyaml")
    judge(ctx, traces3, verdicts3)
    ctx.samples = [{"yaml": traces[0]["yaml"], "events": traces[0]["events"]}, {"yaml": traces[len(traces) // 2]["yaml"], "events": traces[len(traces) // 2]["events"]}]
    ctx.extra["rule"] = "one case = one YAML document with one (thorough: up to two) python/* or unregistered tag of 19 kinds x 5 named targets x 10 positions x 3 argument shapes, enumerated by TLC; distinct non-trivial = distinct (kinds, targets, positions, outcome)"
    ctx.assumptions = ["side effects are observed through canaries: recording callable/class, import hook for not-yet-imported modules, marker files for os.system, patched __init__ of a registered plugin class", "documents are loaded through cobald.daemon.core.config.load with the installed entry points plus fixture plugins (fixture_dist/vpfix-0.dist-info)"]


def replay(ctx, payload):
    docs = [payload["case"]["doc"]]
    _, probe = run_docs([[{"kind": "plugin", "target": "plugin:VLazy", "pos": "", "shape": ""}]], 0)
    unsafe = sorted(k for k, h in probe.items() if h and not k.startswith("default:"))
    traces, _ = run_docs(docs, 0)
    consts = " UnsafeHandled = {%s}\n BadKinds = {}\n Targets = {%s}" % (", ".join('"%s"' % u for u in unsafe), ", ".join('"%s"' % t for t in TARGETS))
    verdicts, _ = traceval.validate("YamlSafetyTrace", [{"doc": t["doc"], "events": t["events"]} for t in traces], consts)
    judge(ctx, traces, verdicts)
    ctx.samples = [traces[0]["yaml"]]
    ctx.level = "exploration"
    ctx.distinct.update({"replay-a", "replay-b"})
