"""C01 - background failures always stop the daemon (fail-stop, never silent).

Specification: specs/Runtime.tla + RuntimeTrace.tla.  For a family of scenario shapes (failing
payload of each flavour x failure kind x registration time, with bystanders of the other
flavours) TLC checks FailStopSafe / CauseFaithful / FailStopLive on the model under every
interleaving, generates behaviours by simulation, the driver forces each behaviour's controllable
actions onto a real ServiceRunner (gated payloads), and TLC validates the recorded traces.
"""
import itertools
import random

from .. import core
from ..rt import scen

NAMES = ["FailStopWhileStopping", "FailStopSafe", "CauseFaithful", "InterruptEndsQuietly", "FailStopObserved"]
HOWS = {
    "val": ["val:0", "val:0.0", "val:False", "val:''", "val:[]", "val:()", "val:x", "val:obj"],
    "exc": ["exc:LookupError", "exc:UserExc", "exc:UserExcSub", "exc:RuntimeError", "exc:FalsyExc"],
    "base": ["base:UserBase", "base:SystemExit"],
    "kbd": ["base:KeyboardInterrupt"],
    "none": ["none"],
}


def shapes(thorough, rnd):
    out = []
    regs = ["pre", "post", "post_from_payload", "service_pre", "service_post"]
    combos = list(itertools.product(scen.FLAVS, ["val", "exc", "base", "kbd"], regs))
    if not thorough:
        # covering subset: every flavour x kind, every flavour x registration time
        keep = []
        for i, (f, k, r) in enumerate(combos):
            if (scen.FLAVS.index(f) + ["val", "exc", "base", "kbd"].index(k) + regs.index(r)) % 5 == 0:
                keep.append((f, k, r))
        combos = keep
    bystander_sets = [("b1", "b2", "b3"), (), ("b2",), ("b3",), ("b1",), ("b2", "b3")]
    allb = {"b1": {"flavour": "asyncio", "cleanup": 1}, "b2": {"flavour": "trio", "cleanup": 1, "shielded": 1}, "b3": {"flavour": "threading"}}
    for n, (f, k, r) in enumerate(combos):
        # number, flavour and state of the bystanders vary - including none at all, which
        # leaves the asyncio loop idle when the failure arrives
        bys = bystander_sets[n % len(bystander_sets)]
        payloads = {b: dict(allb[b]) for b in bys}
        services = {}
        fail = {"flavour": f, "args": [1, "a"], "kwargs": {"k": 2}} if not r.startswith("service") else {"flavour": f}
        proto = []
        ctx = {}
        if r.startswith("service"):
            services["f"] = fail
            if r == "service_pre":
                proto.append({"op": "new_service", "s": "f"})
        else:
            payloads["f"] = fail
            if r == "pre":
                proto.append({"op": "adopt", "p": "f"})
            elif r == "post_from_payload":
                ctx["f"] = ["payload:" + b for b in bys] or ["thread"]
        if "b1" in bys:
            proto.append({"op": "adopt", "p": "b1"})
        proto += [{"op": "accept"}, {"op": "end", "p": "f", "how": HOWS[k][0]}]
        # a second payload that may fail at nearly the same time (thorough)
        if thorough and k in ("val", "exc"):
            payloads["g"] = {"flavour": rnd.choice(scen.FLAVS)}
            proto.append({"op": "end", "p": "g", "how": "exc:UserExc"})
        hows = {p: HOWS for p in list(payloads) + list(services)}
        out.append({"title": "%s payload ends %s, registered %s" % (f, k, r), "payloads": payloads, "services": services, "proto_script": proto, "hows": hows, "ctx": ctx, "svc_ctx": ["driver", "thread"] + ["payload:" + b for b in bys if b != "b2"]})
    return out


def run(ctx):
    thorough = ctx.tier == "thorough"
    rnd = random.Random(ctx.seed)
    sh = shapes(thorough, rnd)
    # a payload whose CALL already raises (a plain callable failing before it returns its
    # coroutine, wrong arguments, a run() that delegates) is a failing payload like any other
    extra = []
    for f in scen.FLAVS:
        for how in ("exc:UserExc", "exc:LookupError", "base:UserBase"):
            for reg in ("pre", "post", "service"):
                pl = {"b1": {"flavour": "asyncio", "cleanup": 1}} if f != "asyncio" else {"b2": {"flavour": "trio", "cleanup": 1}}
                sv = {}
                script = [{"op": "adopt", "p": sorted(pl)[0]}]
                if reg == "service":
                    sv["f"] = {"flavour": f, "immediate": how}
                    script += [{"op": "new_service", "s": "f"}, {"op": "accept"}, {"op": "wait_running"}]
                else:
                    pl["f"] = {"flavour": f, "immediate": how, "args": [1], "kwargs": {"k": 2}}
                    if reg == "pre":
                        script += [{"op": "adopt", "p": "f"}, {"op": "accept"}, {"op": "wait_running"}]
                    else:
                        script += [{"op": "accept"}, {"op": "wait_running"}, {"op": "adopt", "p": "f", "ctx": "thread"}]
                script += [{"op": "wait_start", "p": "f"}, {"op": "wait_end", "timeout": 4.0}]
                extra.append({"seed": ctx.seed, "jitter": 0.0, "payloads": pl, "services": sv, "script": script, "shape": "targeted-call-raises", "immediate_how": how})
    # the STATE of the bystanders must not matter: a coroutine bystander that absorbs its first
    # cancellation(s) (a retry loop), one with long shielded cleanup, one that has just started
    for f in scen.FLAVS:
        for k, how in enumerate(("exc:UserExc", "val:0", "base:UserBase")):
            pl = {"f": {"flavour": f}, "b1": {"flavour": "asyncio", "swallow": 1 + k % 2, "cleanup": 1}, "b2": {"flavour": "trio", "cleanup": 1, "shielded": 2}, "b3": {"flavour": "threading"}}
            extra.append({"seed": ctx.seed + k, "jitter": 0.0, "payloads": pl,
                          "script": [{"op": "adopt", "p": "b1"}, {"op": "adopt", "p": "b2"}, {"op": "adopt", "p": "b3"}, {"op": "adopt", "p": "f"}, {"op": "accept"}, {"op": "wait_running"}, {"op": "wait_start", "p": "b1"}, {"op": "wait_start", "p": "b2"}, {"op": "wait_start", "p": "f"},
                                     {"op": "step", "p": "b1"}, {"op": "end", "p": "f", "how": how}, {"op": "wait_end", "timeout": 4.0}], "shape": "targeted-bystander-absorbs-cancel"})
    # BaseExceptions that frameworks give a meaning of their own (asyncio's CancelledError, a
    # GeneratorExit) are failures like any other when a payload RAISES them
    for f in scen.FLAVS:
        for how in ("base:CancelledError", "base:GeneratorExit"):
            if f == "asyncio" and how == "base:CancelledError":
                continue  # inside asyncio that IS the framework's cancellation: the payload just ends
            pl = {"f": {"flavour": f}, "b1": {"flavour": "trio" if f == "asyncio" else "asyncio", "cleanup": 1}}
            script = [{"op": "adopt", "p": "b1"}, {"op": "adopt", "p": "f"}, {"op": "accept"}, {"op": "wait_running"}, {"op": "wait_start", "p": "f"}, {"op": "wait_start", "p": "b1"}, {"op": "step", "p": "f"}, {"op": "end", "p": "f", "how": how}, {"op": "wait_end", "timeout": 4.0}]
            extra.append({"seed": ctx.seed, "jitter": 0.0, "payloads": pl, "script": script, "shape": "targeted-framework-baseexception"})
    # a payload fails right after shutdown() has been asked for, while the service loop (slow
    # polling) has not even noticed: all runners are open, the failure ends the run by raising
    for f in scen.FLAVS:
        for how in ("exc:UserExc", "val:0"):
            pl = {"f": {"flavour": f}, "b1": {"flavour": "trio" if f == "asyncio" else "asyncio", "cleanup": 1}}
            script = [{"op": "adopt", "p": "b1"}, {"op": "adopt", "p": "f"}, {"op": "accept"}, {"op": "wait_running"}, {"op": "wait_start", "p": "f"}, {"op": "wait_start", "p": "b1"}, {"op": "polls", "n": 4},
                      {"op": "shutdown", "ctx": "thread", "wait": False}, {"op": "end", "p": "f", "how": how}, {"op": "wait_end", "timeout": 6.0}]
            extra.append({"seed": ctx.seed, "jitter": 0.0, "accept_delay": 1.5, "timeout": 16.0, "payloads": pl, "script": script, "shape": "targeted-failure-right-after-shutdown-request"})
    # an exception OBJECT that is falsy is a failure like any other
    for f in scen.FLAVS:
        for reg in ("pre", "post"):
            pl = {"f": {"flavour": f}, "b1": {"flavour": "trio" if f == "asyncio" else "asyncio", "cleanup": 1}}
            script = [{"op": "adopt", "p": "b1"}] + ([{"op": "adopt", "p": "f"}] if reg == "pre" else []) + [{"op": "accept"}, {"op": "wait_running"}] + ([] if reg == "pre" else [{"op": "adopt", "p": "f", "ctx": "thread"}])
            script += [{"op": "wait_start", "p": "f"}, {"op": "step", "p": "f"}, {"op": "end", "p": "f", "how": "exc:FalsyExc"}, {"op": "wait_end", "timeout": 4.0}]
            extra.append({"seed": ctx.seed, "jitter": 0.0, "payloads": pl, "script": script, "shape": "targeted-falsy-exception"})
    # restart: the same runtime runs a second time (after a graceful stop); a payload adopted
    # between the two runs belongs to the second one, and its failure ends that run
    for f in scen.FLAVS:
        for how in ("exc:UserExc", "val:0"):
            pl = {"a1": {"flavour": "asyncio", "cleanup": 1}, "f": {"flavour": f}, "b2": {"flavour": "trio", "cleanup": 1}}
            script = [{"op": "adopt", "p": "a1"}, {"op": "accept"}, {"op": "wait_running"}, {"op": "wait_start", "p": "a1"}, {"op": "shutdown", "ctx": "thread", "wait": True}, {"op": "wait_end", "timeout": 4.0},
                      {"op": "adopt", "p": "f", "ctx": "driver", "force": True}, {"op": "adopt", "p": "b2", "ctx": "thread", "force": True}, {"op": "reaccept_start"},
                      {"op": "wait_start", "p": "f", "force": True}, {"op": "wait_start", "p": "b2", "force": True}, {"op": "step", "p": "f", "force": True}, {"op": "end", "p": "f", "how": how, "force": True}, {"op": "reaccept_wait", "timeout": 4.0}]
            extra.append({"seed": ctx.seed, "jitter": 0.0, "reaccept": True, "epoch": 2, "payloads": pl, "script": script, "shape": "targeted-restart-then-failure"})
    # two failures at nearly the same time, one of them a thread payload held between raising
    # and handing its failure to the loop thread (the only two-step hand-over): the run ends,
    # with one of the two as its cause, whatever the other runner is doing at that moment
    for g in scen.FLAVS:
        for k, (how_f, how_g) in enumerate((("exc:UserExc", "exc:LookupError"), ("val:0", "exc:UserExcSub"), ("exc:RuntimeError", "val:''"))):
            pl = {"f": {"flavour": "threading"}, "g": {"flavour": g}, "b1": {"flavour": "asyncio", "cleanup": 1}, "b2": {"flavour": "trio", "cleanup": 1}}
            for order in ("held-then-other", "other-while-held-released-late"):
                script = [{"op": "adopt", "p": "b1"}, {"op": "adopt", "p": "b2"}, {"op": "adopt", "p": "f"}, {"op": "adopt", "p": "g"}, {"op": "accept"}, {"op": "wait_running"}, {"op": "wait_start", "p": "f"}, {"op": "wait_start", "p": "g"},
                          {"op": "park", "point": "h.fail.post"}, {"op": "end", "p": "f", "how": how_f}, {"op": "wait_park", "point": "h.fail.post"}, {"op": "end", "p": "g", "how": how_g}]
                script += ([{"op": "sleep", "ms": 5}, {"op": "release", "point": "h.fail.post"}, {"op": "wait_end", "timeout": 4.0}] if order == "held-then-other" else [{"op": "wait_end", "timeout": 4.0}, {"op": "release", "point": "h.fail.post"}, {"op": "sleep", "ms": 50}])
                extra.append({"seed": ctx.seed + k, "jitter": 0.0, "payloads": pl, "script": script, "shape": "targeted-two-failures-one-held"})
    # a payload fails, and a bystander of its flavour answers the cancellation that follows by
    # raising KeyboardInterrupt: the failure came first, the run ends by raising
    for ff in ("trio", "asyncio"):
        for how in ("exc:UserExc", "val:0"):
            extra.append({"seed": ctx.seed, "jitter": 0.0, "payloads": {"f": {"flavour": ff}, "b1": {"flavour": ff, "on_cancel": "base:KeyboardInterrupt"}, "b2": {"flavour": "threading"}},
                          "script": [{"op": "adopt", "p": "f"}, {"op": "adopt", "p": "b1"}, {"op": "adopt", "p": "b2"}, {"op": "accept"}, {"op": "wait_running"}, {"op": "wait_start", "p": "f"}, {"op": "wait_start", "p": "b1"}, {"op": "wait_start", "p": "b2"},
                                     {"op": "end", "p": "f", "how": how}, {"op": "wait_end", "timeout": 4.0}], "shape": "targeted-failure-then-interrupting-bystander"})
    # a payload fails and, while the runtime is still closing because of it (a bystander's
    # shielded cleanup takes its time), ^C arrives: the failure came first, the run ends by raising
    for ff in scen.FLAVS:
        extra.append({"seed": ctx.seed, "jitter": 0.0, "poll": 0.03, "payloads": {"f": {"flavour": ff}, "t1": {"flavour": "trio", "cleanup": 1, "shielded": 8}, "a1": {"flavour": "asyncio", "cleanup": 1}},
                      "script": [{"op": "adopt", "p": "f"}, {"op": "adopt", "p": "t1"}, {"op": "adopt", "p": "a1"}, {"op": "accept"}, {"op": "wait_running"}, {"op": "wait_start", "p": "f"}, {"op": "wait_start", "p": "t1"}, {"op": "wait_start", "p": "a1"},
                                 {"op": "end", "p": "f", "how": "exc:UserExc"}, {"op": "sleep", "ms": 80}, {"op": "sigint", "force": True}, {"op": "wait_end", "timeout": 4.0}], "shape": "targeted-failure-then-sigint-while-closing"})
    # an outside thread adopts a payload of a busy coroutine flavour, the busy payload adopts
    # too, and then a payload fails: the run still ends by raising
    for ff in ("trio", "asyncio"):
        extra.append({"seed": ctx.seed, "jitter": 0.0, "payloads": {"f": {"flavour": "threading"}, "c1": {"flavour": ff}, "late": {"flavour": ff}, "late2": {"flavour": ff}},
                      "script": [{"op": "adopt", "p": "f"}, {"op": "adopt", "p": "c1"}, {"op": "accept"}, {"op": "wait_running"}, {"op": "wait_start", "p": "f"}, {"op": "wait_start", "p": "c1"},
                                 {"op": "seg", "p": "c1", "hold": 0.4, "adopt_after": "late2", "nowait": True}, {"op": "sleep", "ms": 120}, {"op": "adopt", "p": "late", "ctx": "thread"},
                                 {"op": "sleep", "ms": 400}, {"op": "end", "p": "f", "how": "exc:UserExc"}, {"op": "wait_end", "timeout": 4.0}], "shape": "targeted-failure-after-crossed-adoptions"})
    scen.run_family(ctx, sh, names=NAMES, allow=(), extra_scenarios=extra, mc_invariants=["FailStopSafe", "CauseFaithful", "InterruptEndsQuietly", "AtMostOnce", "CleanupBeforeEnd"], mc_properties=["FailStopLive"], per_shape=16 if thorough else 6, depth=40, label="c01")
    ctx.extra["rule"] = "shapes = failing flavour x failure kind (non-None value incl. falsy ones / Exception / BaseException / KeyboardInterrupt) x registration time (queued, adopted from a thread or from a payload of each flavour, service created before or after start) with bystanders of all flavours; per shape TLC-simulated behaviours projected to the controllable actions; distinct non-trivial = distinct (shape, sequence of starts/ends/cancellations/returns observed)"
    ctx.assumptions = [
        "no stop is requested from outside in these scenarios (a failure racing a shutdown is C12's subject)",
        "the model is the runtime's protocol (API calls, payload life cycle, phase changes), not asyncio's or trio's internals; Python 3.12 / trio 0.34 semantics",
        "'never keeps running' is observed as: accept() has ended when the script, which waits up to 4 s after the failure, reaches its quiescence marker",
    ]


def replay(ctx, payload):
    scn = payload["case"]["scenario"]
    raw = scen.run_one(scn)
    c, ev = scen.normalize(scn, raw)
    vs, _ = scen.validate([(c, ev)], "replay")
    v = vs[0]
    for name in sorted({n for _, n in v.pv if n in NAMES}):
        idx = min(i for i, n in v.pv if n == name)
        ctx.add_violation(name, scen.fingerprint(name, scn, ev, idx), scen.describe(name, scn, ev, idx), {"scenario": scn})
    ctx.traces_total = 1
    ctx.samples = [ev[:40]]
    ctx.level = "exploration"
    ctx.distinct.update({"replay-a", "replay-b"})
