"""C05 - a YAML pipeline section builds the chain it describes.

Specification: specs/YamlPipeline.tla (+ trace module).  TLC enumerates pipelines (length,
syntactic form per position, failing position), checks Linked / OnceLastToFirst / NoPartial on
the model and emits every case; each is rendered to YAML text (argument shapes, nested lazy and
eager tags, failure kind chosen by seed), written to a file and loaded through the real
cobald.daemon.core.config.load with fixture plugins registered through a fixture dist-info;
the constructor calls and the returned list are validated by TLC.
"""
import json
import os
import random
import sys

from .. import core, tlc, traceval

INVARIANTS = ["Linked", "OnceLastToFirst", "ArgsExact", "NoPartial", "StopsAtFailure"]
FORMS = ["tagmap", "tagseq", "tagbare", "typemap"]
FIX = os.path.join(core.ROOT, "fixture_dist")


def mc_module(name, maxn):
    L = ["---- MODULE %s ----" % name, "EXTENDS YamlPipeline, Json"]
    L.append('Forms == {"tagmap", "tagseq", "tagbare", "typemap"}')
    L.append("MCInit == \\E nn \\in 1..%d : \\E fs \\in [1..nn -> Forms] : \\E fp \\in 0..nn : InitWith(nn, fs, fp)" % maxn)
    L.append("MCSpec == MCInit /\\ [][Next]_vars")
    L.append('EmitInit == (log # <<>> \\/ result # Pending) \\/ PrintT(<<"INIT", ToJson([n |-> n, forms |-> forms, failpos |-> failpos])>>)')
    L.append("====")
    return "\n".join(L)


def mc_cfg():
    return "SPECIFICATION MCSpec\n" + "".join("INVARIANT %s\n" % i for i in INVARIANTS) + "CONSTRAINT EmitInit\n"


# ---------------------------------------------------------------- rendering
SHAPES = ["none", "scalars", "nested_list", "nested_map", "lazy_inside", "eager_inside", "type_inside", "tok_inside", "oddkeys"]


def shape_args(shape, form, i):
    """-> (yaml text of the arguments in the given form, expected args tuple, expected kwargs dict)"""
    if form == "tagbare" or shape == "none":
        return ("{}" if form in ("tagmap", "typemap") else "[]"), (), {}
    if shape == "type_inside":
        if form != "typemap":
            shape = "nested_map"   # only __type__ elements have their arguments translated
        else:
            # a nested __type__ mapping among the arguments is constructed with ITS items only
            return ("{a: &t%d {__type__: vp.fx_translate.okf_%d, x: %d}, b: [{__type__: vp.fx_translate.okc_%d}]}" % (i, 900 + i, i, 950 + i), (),
                    {"a": ("Made", 900 + i, (), {"x": i}), "b": [("Made", 950 + i, (), {})]})
    if form == "tagseq":
        table = {
            "scalars": ("[%d, 'x', 2.5, true, null]" % i, (i, "x", 2.5, True, None)),
            "nested_list": ("[%d, [1, [2, 3]], []]" % i, (i, [1, [2, 3]], [])),
            "nested_map": ("[{a: {b: %d}}, {}]" % i, ({"a": {"b": i}}, {})),
            "lazy_inside": ("[!VLazy {k: [1, 2]}, %d]" % i, (("lazy", (), {"k": [1, 2]}), i)),
            "eager_inside": ("[!VEager [4, [5]], %d]" % i, (("eager", (4, [5]), {}), i)),
            # a bare tag whose factory makes an object (no template): a fresh one per occurrence
            "tok_inside": ("[!VTok , %d, [!VTok ]]" % i, ("TOK", i, ["TOK"])),
            # nested mappings need not have string keys (YAML: 7:, false:, 2.5:, null:)
            "oddkeys": ("[{7: %d, false: [2], 2.5: {x: 1}, null: n}, %d]" % (i, i), ({7: i, False: [2], 2.5: {"x": 1}, None: "n"}, i)),
        }
        y, a = table[shape]
        return y, a, {}
    table = {
        "scalars": ("{a: %d, b: 'x', c: 2.5, d: true, e: null}" % i, {"a": i, "b": "x", "c": 2.5, "d": True, "e": None}),
        "nested_list": ("{a: [1, [2, %d]], b: []}" % i, {"a": [1, [2, i]], "b": []}),
        "nested_map": ("{a: &m%d {b: {c: %d}}, d: {}}" % (i, i), {"a": {"b": {"c": i}}, "d": {}}),
        "lazy_inside": ("{a: !VLazy {k: [1, %d]}}" % i, {"a": ("lazy", (), {"k": [1, i]})}),
        "eager_inside": ("{a: !VEager [4, [%d]]}" % i, {"a": ("eager", (4, [i]), {})}),
        "tok_inside": ("{a: !VTok , b: [%d, !VTok ]}" % i, {"a": "TOK", "b": [i, "TOK"]}),
        "oddkeys": ("{a: {7: %d, false: [2], 2.5: {x: 1}, null: n}, b: [{3: {4: 5}}]}" % i, {"a": {7: i, False: [2], 2.5: {"x": 1}, None: "n"}, "b": [{3: {4: 5}}]}),
    }
    y, k = table[shape]
    return y, (), k


def render(case):
    """case: {n, forms, failpos, seed} -> (yaml text, expected {pos: (args, kwargs)})"""
    rnd = random.Random(case["seed"])
    n = case["n"]
    lines, expect = ["pipeline:"], {}
    anchors = []  # (anchor name, expected value, is a nested __type__ mapping) of earlier elements
    for i in range(1, n + 1):
        form = case["forms"][i - 1]
        shape = rnd.choice(SHAPES)
        kind = "VPool" if i == n else ("VCtrl" if (i == 1 and rnd.random() < 0.5) else "VDeco")
        failing = case["failpos"] == i
        fail_kw = False
        if failing:
            if form in ("tagmap", "typemap") and rnd.random() < 0.5 or i == n:
                fail_kw = True
            else:
                kind = "VFail"
        if fail_kw and form in ("tagseq", "tagbare"):
            # these forms cannot carry a keyword: use the always-failing class (pool: keep form map)
            if i == n:
                form = "tagmap"
            else:
                kind, fail_kw = "VFail", False
        y, a, k = shape_args(shape, form, i)
        if form in ("tagmap", "typemap"):
            def more(text):
                return y[:-1] + (", " if len(y) > 2 else "") + text + "}"
            # YAML aliases of an earlier element's argument (the SAME object at two positions;
            # a nested __type__ mapping is translated for __type__ elements only) and merge keys
            usable = [(name, val) for name, val, typed in anchors if form == "typemap" or not typed]
            if usable and rnd.random() < 0.5:
                name, val = rnd.choice(usable)
                y, k = more("zz: *%s" % name), dict(k, zz=val)
            if rnd.random() < 0.3:
                y, k = more("<<: {mq: %d, mr: [%d]}" % (i, i)), dict(k, mq=i, mr=[i])
            if rnd.random() < 0.25 and kind != "VFail":
                # an element that is falsy once constructed (an empty group, say)
                y, k = more("falsy: true"), dict(k, falsy=True)
            if "&t%d " % i in y:
                anchors.append(("t%d" % i, ("Made", 900 + i, (), {"x": i}), True))
            if "&m%d " % i in y:
                anchors.append(("m%d" % i, {"b": {"c": i}}, False))
        if fail_kw:
            y = y[:-1] + (", " if len(y) > 2 else "") + "fail: true}"
            k = dict(k, fail=True)
        if form == "typemap":
            # (no __args__ here: the property speaks of __type__ mappings "with keyword items";
            #  positional __args__ of a non-final element collide with target=, which the
            #  translator passes by keyword - observed, documented in DESIGN.md, not demanded)
            # (the factory is a module attribute or an attribute of a class in the module)
            lines.append("  - {__type__: vp.fx_plugins.%s%s%d%s" % (rnd.choice(["", "", "Ns."]), kind, i, (", " + y[1:]) if len(y) > 2 else "}"))
        elif form == "tagbare":
            lines.append("  - !%s%d" % (kind, i))
        else:
            lines.append("  - !%s%d %s" % (kind, i, y))
        expect[i] = (a, k)
    return "\n".join(lines) + "\n", expect


def plain(x):
    """objects made by the fixture factories -> comparable tuples"""
    from vp.fx_translate import Made
    from vp.fx_plugins import Tok

    if isinstance(x, Tok):
        return "TOK"
    if isinstance(x, Made):
        return ("Made", x.ident, plain(tuple(x.args)), plain(dict(x.kwargs)))
    if isinstance(x, dict):
        return {k: plain(v) for k, v in x.items()}
    if isinstance(x, (list, tuple)):
        return type(x)(plain(v) for v in x)
    return x


def execute(case):
    if FIX not in sys.path:
        sys.path.insert(0, FIX)
    import vp.fx_plugins as fx
    from cobald.daemon.core.config import load
    from cobald.interfaces import Partial

    text, expect = render(case)
    d = tlc.subdir("c05-yaml")
    path = os.path.join(d, "p%d_%d.yaml" % (os.getpid(), case["seed"] % 1000000))
    with open(path, "w") as f:
        f.write(text)
    fx.reset()
    exc = ""
    end = None
    try:
        with load(path) as cfg:
            pipeline = None
            if isinstance(cfg, dict):
                for plug, content in cfg.items():
                    if getattr(plug, "section", None) == "pipeline":
                        pipeline = content
            if isinstance(pipeline, dict) and "pipeline" in pipeline:
                pipeline = pipeline["pipeline"]
            if not isinstance(pipeline, list):
                end = {"e": "End", "state": "ok", "len": 0, "order": [], "linked": []}
            else:
                order = [getattr(o, "pos", 0) if not isinstance(o, Partial) else 0 for o in pipeline]
                linked = []
                for j, o in enumerate(pipeline):
                    nxt = pipeline[j + 1] if j + 1 < len(pipeline) else None
                    linked.append((not isinstance(o, Partial)) and getattr(o, "target", "missing") is nxt)
                end = {"e": "End", "state": "ok", "len": len(pipeline), "order": order, "linked": linked}
    except Exception as e:  # noqa
        exc = type(e).__name__
        end = {"e": "End", "state": "raised"}
    finally:
        os.unlink(path)
    events = []
    seen_toks = []

    def toks_fresh(x):
        """every object made by a bare !VTok is made by THIS load and given to one place only"""
        if isinstance(x, fx.Tok):
            ok = any(x is t for t in fx.TOKS) and not any(x is t for t in seen_toks)
            seen_toks.append(x)
            return ok
        if isinstance(x, dict):
            return all([toks_fresh(v) for v in x.values()])
        if isinstance(x, (list, tuple)):
            return all([toks_fresh(v) for v in x])
        return True

    for kind, pos, args, kwargs in fx.LOG:
        if kind.startswith(("VLazy", "VEager", "VTok")):
            continue
        ea, ek = expect.get(pos, ((), {}))
        events.append({"e": "Construct", "i": pos, "argsok": bool(plain(tuple(args)) == plain(tuple(ea)) and plain(dict(kwargs)) == plain(dict(ek)) and toks_fresh([args, kwargs]))})
    events.append(end)
    return {"n": case["n"], "forms": case["forms"], "failpos": case["failpos"], "seed": case["seed"], "events": events, "yaml": text, "exc": exc}


def judge(ctx, traces, verdicts):
    for tr, v in zip(traces, verdicts):
        ctx.traces_total += 1
        ctx.events_total += len(tr["events"])
        if v.accepted:
            ctx.traces_accepted += 1
        if v.nc is not None:
            ctx.traces_nc += 1
        case = {k: tr[k] for k in ("n", "forms", "failpos", "seed")}
        for name in sorted({n for _, n in v.pv}):
            fp = {"invariant": name}
            if tr["exc"]:
                fp["exception"] = tr["exc"]
            ctx.add_violation(name, fp, "configuration\n%s-> %s %s violates %s" % (tr["yaml"], json.dumps(tr["events"]), tr["exc"], name), case, detail={"trace": tr})
        if v.nc is not None and not v.pv:
            ctx.add_drift("loading\n%s gave %s, which is not a behaviour of YamlPipeline.tla" % (tr["yaml"], json.dumps(tr["events"])), case)
        ctx.note_distinct([tr["forms"], tr["failpos"]])


def run(ctx):
    thorough = ctx.tier == "thorough"
    rnd = random.Random(ctx.seed)
    maxn = 6 if thorough else 4
    res = tlc.run("MCYP", mc_cfg(), module_text=mc_module("MCYP", maxn), workers=1, timeout=3000, heap="8g")
    ctx.model_must_hold("YamlPipeline model", res)
    ctx.add_model_run("YamlPipeline.tla/lengths 1..%d x 4 forms per position x failing position" % maxn, res)
    recs = [json.loads(p[1]) for p in res.prints if p[0] == "INIT"]
    ctx.extra["configurations_emitted"] = len(recs)
    budget = 20000 if thorough else 4000
    if len(recs) > budget:
        recs = rnd.sample(recs, budget)
    cases = []
    for i, r in enumerate(recs):
        for rep in range(2):
            cases.append({"n": r["n"], "forms": list(r["forms"]), "failpos": r["failpos"], "seed": ctx.seed * 1000003 + i * 2 + rep})
    from concurrent.futures import ProcessPoolExecutor

    tlc.subdir("c05-yaml")
    with ProcessPoolExecutor(max_workers=12) as ex:
        traces = list(ex.map(execute, cases, chunksize=64))
    ctx.extra["behaviours_replayed"] = len(cases)
    verdicts, tstates = traceval.validate("YamlPipelineTrace", [{k: t[k] for k in ("n", "forms", "failpos", "events")} for t in traces], "", timeout=3000)
    ctx.extra["trace_states"] = tstates
    judge(ctx, traces, verdicts)
    ctx.samples = [{"yaml": traces[0]["yaml"], "events": traces[0]["events"]}, {"yaml": traces[-1]["yaml"], "events": traces[-1]["events"]}]
    ctx.extra["rule"] = "one case = one pipeline (length, form per position, failing position) enumerated by TLC, rendered twice with seeded argument shapes (scalars, nested lists/mappings, lazy/eager tags inside, __args__), head kind and failure kind; distinct non-trivial = distinct (forms, failing position)"
    ctx.assumptions = ["fixture plugin classes VPool<i>/VDeco<i>/VCtrl<i>/VFail<i> are registered as YAML tags through fixture_dist/vpfix-0.dist-info and reachable as vp.fx_plugins.<name> for __type__", "constructor failures are ValueError (fail: true) or KeyError (VFail); failures in the YAML phase itself are not generated"]


def replay(ctx, payload):
    t = execute(payload["case"])
    verdicts, _ = traceval.validate("YamlPipelineTrace", [{k: t[k] for k in ("n", "forms", "failpos", "events")}], "")
    judge(ctx, [t], verdicts)
    ctx.samples = [{"yaml": t["yaml"], "events": t["events"]}]
    ctx.level = "exploration"
    ctx.distinct.update({"replay-a", "replay-b"})
