"""C03 - every adopted payload and every service is started exactly once.

Runtime.tla / RuntimeTrace.tla; shapes = 2..4 payloads over flavour assignments with argument
tuples/dicts, submitted before start or afterwards from an outside thread or from inside a
payload of each flavour, 0..2 services (one of them falsy) created before or after start from
any context, at least three polling cycles, optionally a shutdown racing the submissions.
"""
import itertools
import random
from concurrent.futures import ThreadPoolExecutor

from ..rt import scen
from . import regkernel
from .rtcommon import HOWS, RT_ASSUMPTIONS, make_replay

NAMES = ["NoStrayStart", "AtMostOnce", "AdoptReturnsNone", "AdoptReturnsObserved", "ExactlyOnceObserved", "RightFlavour", "ArgsExact"]
replay = make_replay(NAMES)
ARGS = [([], {}), ([1, "two"], {}), ([], {"k": [1, 2]}), ([None, 0], {"a": "", "b": 2.5})]


def shapes(thorough, rnd):
    out = []
    assigns = list(itertools.product(scen.FLAVS, repeat=3))
    if not thorough:
        assigns = assigns[::3]
    for n, fl in enumerate(assigns):
        payloads, ctx = {}, {}
        proto = []
        for i, f in enumerate(fl):
            a, k = ARGS[(n + i) % len(ARGS)]
            pid = "p%d" % (i + 1)
            # (some payloads have no __module__, like functions made by exec() in a bare namespace)
            payloads[pid] = {"flavour": f, "args": a, "kwargs": k, "cleanup": i % 2, "nomodule": (n + i) % 3 == 0}
        # p1 is queued before start; p2/p3 are adopted afterwards from any context
        proto.append({"op": "adopt", "p": "p1"})
        ctx["p2"] = ["driver", "thread", "payload:p1"]
        ctx["p3"] = ["thread", "payload:p1", "payload:p2"]
        services = {}
        if n % 3 != 2:
            services["s1"] = {"flavour": fl[n % 3], "falsy": n % 2 == 1}
            if n % 2 == 0:
                proto.append({"op": "new_service", "s": "s1"})
        if n % 4 == 0:
            services["s2"] = {"flavour": fl[(n + 1) % 3]}
        proto.append({"op": "accept"})
        out.append({"title": "flavours %s services %s" % (fl, sorted(services)), "payloads": payloads, "services": services, "proto_script": proto,
                    "hows": {p: HOWS for p in list(payloads) + list(services)}, "ctx": ctx, "svc_ctx": ["driver", "thread", "payload:p1"],
                    "allow": ("shutdown",) if n % 3 == 1 else ()})
    return out


def run(ctx):
    thorough = ctx.tier == "thorough"
    rnd = random.Random(ctx.seed)
    sh = shapes(thorough, rnd)
    groups = {}
    for s in sh:
        # quick tier: liveness is model-checked on the shapes without a racing shutdown only
        s["mc_light"] = (not thorough) and bool(s["allow"])
        groups.setdefault(s["allow"], []).append(s)
    # adoption while the runtime is finishing its payloads' cleanup must not raise
    extra = []
    for late in scen.FLAVS:
        for ctxl in ("thread", "payload:h1"):
            for trig, ms in itertools.product(([{"op": "shutdown", "ctx": "thread", "wait": False}], [{"op": "end", "p": "f", "how": "exc:UserExc"}]), (0, 6, 20)):
                extra.append({"seed": ctx.seed, "jitter": 0.0, "poll": 0.004, "payloads": {"f": {"flavour": "threading"}, "h1": {"flavour": "threading"}, "a1": {"flavour": "asyncio", "cleanup": 2}, "t1": {"flavour": "trio", "cleanup": 1, "shielded": 2}, "late": {"flavour": late, "args": [1], "kwargs": {"k": 2}}},
                              "script": [{"op": "adopt", "p": "a1"}, {"op": "adopt", "p": "t1"}, {"op": "adopt", "p": "f"}, {"op": "adopt", "p": "h1"}, {"op": "accept"}, {"op": "wait_running"}, {"op": "wait_start", "p": "a1"}, {"op": "wait_start", "p": "t1"}, {"op": "wait_start", "p": "f"}, {"op": "wait_start", "p": "h1"}]
                              + trig + [{"op": "sleep", "ms": ms}, {"op": "adopt", "p": "late", "ctx": ctxl}, {"op": "wait_end"}], "shape": "targeted-adopt-while-closing"})
    # several threads queue the first payloads of a flavour before start at the same instant,
    # alone or racing accept()'s own registration of the service loop (tiny GIL switch interval)
    for k in range(90 if thorough else 36):
        fl = scen.FLAVS[k % 3]
        wa = False  # racing accept() itself is the start-up window (DESIGN 7.4), not claimed
        extra.append({"seed": ctx.seed + k, "jitter": 0.0, "switchinterval": 1e-6, "payloads": {"q1": {"flavour": fl}, "q2": {"flavour": fl}, "q3": {"flavour": "trio" if wa else fl}},
                      "script": [{"op": "race_adopts", "ps": ["q1", "q2", "q3"], "with_accept": wa}] + ([] if wa else [{"op": "accept"}]) + [{"op": "wait_running"}, {"op": "polls", "n": 3}], "shape": "targeted-prestart-race"})
    # adoption from inside a coroutine payload's own cleanup while the runtime shuts down
    for f in ("asyncio", "trio"):
        for late in scen.FLAVS:
            for trig in ([{"op": "shutdown", "ctx": "thread", "wait": False}], [{"op": "end", "p": "f", "how": "exc:UserExc"}], [{"op": "sigint"}]):
                extra.append({"seed": ctx.seed, "jitter": 0.0, "payloads": {"f": {"flavour": "threading"}, "c1": {"flavour": f, "cleanup": 1, "adopt_in_cleanup": "late"}, "c2": {"flavour": f, "cleanup": 2, "shielded": 1 if f == "trio" else 0}, "late": {"flavour": late, "args": [3]}},
                              "script": [{"op": "adopt", "p": "c1"}, {"op": "adopt", "p": "c2"}, {"op": "adopt", "p": "f"}, {"op": "accept"}, {"op": "wait_running"}, {"op": "wait_start", "p": "c1"}, {"op": "wait_start", "p": "c2"}, {"op": "wait_start", "p": "f"}]
                              + trig + [{"op": "wait_end"}], "shape": "targeted-adopt-in-cleanup"})
    # the same ServiceRunner accepts a second time after its first run ended through a failure:
    # payloads queued before the FIRST start must not be started again
    for f in scen.FLAVS:
        extra.append({"seed": ctx.seed, "jitter": 0.0, "reaccept": True, "payloads": {"q1": {"flavour": f, "args": [1]}, "q2": {"flavour": "threading"}, "f": {"flavour": "asyncio"}},
                      "script": [{"op": "adopt", "p": "q1"}, {"op": "adopt", "p": "q2"}, {"op": "adopt", "p": "f"}, {"op": "accept"}, {"op": "wait_running"}, {"op": "wait_start", "p": "q1"}, {"op": "wait_start", "p": "q2"}, {"op": "wait_start", "p": "f"},
                                 {"op": "end", "p": "f", "how": "exc:UserExc"}, {"op": "wait_end"}, {"op": "reaccept", "ms": 200}], "shape": "targeted-reaccept-same-runner"})
    # adopt() of a trio payload from inside an asyncio payload while a trio payload is inside a
    # blocking execute() into asyncio: adopt must return without waiting (forced by parking the
    # adopter right before it hands the payload to the trio thread)
    extra.append({"seed": ctx.seed, "jitter": 0.0, "timeout": 8, "payloads": {"a1": {"flavour": "asyncio"}, "t1": {"flavour": "trio"}, "x1p": {"flavour": "asyncio"}, "late": {"flavour": "trio"}},
                  "script": [{"op": "adopt", "p": "a1"}, {"op": "adopt", "p": "t1"}, {"op": "accept"}, {"op": "wait_running"}, {"op": "wait_start", "p": "a1"}, {"op": "wait_start", "p": "t1"},
                             {"op": "park", "point": "t.reg.call"}, {"op": "adopt", "p": "late", "ctx": "payload:a1"}, {"op": "wait_park", "point": "t.reg.call"}, {"op": "execute", "p": "x1p", "ctx": "payload:t1", "how": "val:x"},
                             {"op": "release", "point": "t.reg.call"}, {"op": "step", "p": "a1"}, {"op": "step", "p": "t1"}], "shape": "targeted-adopt-vs-execute"})
    # adopt() in the instant between the runners having been closed (the runner table is
    # cleared) and accept() returning: forced by parking the main thread right after
    # _aclose_runners
    for late in scen.FLAVS:
        extra.append({"seed": ctx.seed, "jitter": 0.0, "payloads": {"f": {"flavour": "threading"}, "a1": {"flavour": "asyncio", "cleanup": 1}, "late": {"flavour": late}},
                      "script": [{"op": "adopt", "p": "f"}, {"op": "adopt", "p": "a1"}, {"op": "accept"}, {"op": "wait_running"}, {"op": "wait_start", "p": "f"}, {"op": "wait_start", "p": "a1"},
                                 {"op": "park", "point": "mr.aclose.end"}, {"op": "end", "p": "f", "how": "exc:UserExc"}, {"op": "wait_park", "point": "mr.aclose.end"},
                                 {"op": "adopt", "p": "late", "ctx": "thread"}, {"op": "release", "point": "mr.aclose.end"}, {"op": "wait_end"}], "shape": "targeted-adopt-after-runners-cleared"})
    # a service created in the same polling interval in which another (finished) service
    # instance is garbage collected: the NUMBER of live units is unchanged, the set is not
    for k, (f1, f2) in enumerate((("threading", "asyncio"), ("asyncio", "trio"), ("trio", "threading"))):
        extra.append({"seed": ctx.seed + k, "jitter": 0.0, "accept_delay": 1.0, "timeout": 16.0, "payloads": {"t1": {"flavour": "trio"}}, "services": {"s1": {"flavour": f1}, "s2": {"flavour": f2}, "s3": {"flavour": f1}},
                      "script": [{"op": "new_service", "s": "s1"}, {"op": "adopt", "p": "t1"}, {"op": "accept"}, {"op": "wait_running"}, {"op": "wait_start", "p": "s1"}, {"op": "end", "p": "s1", "how": "none"}, {"op": "polls", "n": 4},
                                 {"op": "new_service", "s": "s2", "ctx": "driver"}, {"op": "drop_service", "s": "s1"}, {"op": "wait_start", "p": "s2"}, {"op": "step", "p": "s2"}, {"op": "end", "p": "s2", "how": "none"}, {"op": "polls", "n": 1},
                                 {"op": "drop_service", "s": "s2"}, {"op": "new_service", "s": "s3", "ctx": "thread"}, {"op": "wait_start", "p": "s3"}, {"op": "polls", "n": 2}], "shape": "targeted-service-created-while-another-is-collected"})
    # adopt() after the run has ended - by a failure or by shutdown() - queues the payload for a
    # next start like before the first one: it neither raises nor starts anything
    for late in scen.FLAVS:
        for trig in ([{"op": "shutdown", "ctx": "thread", "wait": True}], [{"op": "end", "p": "f", "how": "exc:UserExc"}], [{"op": "sigint"}]):
            extra.append({"seed": ctx.seed, "jitter": 0.0, "payloads": {"f": {"flavour": "threading"}, "a1": {"flavour": "asyncio", "cleanup": 1}, "late": {"flavour": late, "args": [1]}},
                          "script": [{"op": "adopt", "p": "f"}, {"op": "adopt", "p": "a1"}, {"op": "accept"}, {"op": "wait_running"}, {"op": "wait_start", "p": "f"}, {"op": "wait_start", "p": "a1"}] + trig
                          + [{"op": "wait_end"}, {"op": "adopt", "p": "late", "ctx": "thread", "force": True}, {"op": "sleep", "ms": 100}], "shape": "targeted-adopt-after-the-run-ended"})
    # restart after a graceful stop: what is adopted, and the services created, between the two
    # runs of the same runtime are started by the second run (validated as an epoch of its own)
    for k, f in enumerate(scen.FLAVS):
        extra.append({"seed": ctx.seed + k, "jitter": 0.0, "reaccept": True, "epoch": 2, "payloads": {"a1": {"flavour": "asyncio", "cleanup": 1}, "q": {"flavour": f, "args": [k]}}, "services": {"s1": {"flavour": scen.FLAVS[(k + 1) % 3]}},
                      "script": [{"op": "adopt", "p": "a1"}, {"op": "accept"}, {"op": "wait_running"}, {"op": "wait_start", "p": "a1"}, {"op": "shutdown", "ctx": "thread", "wait": True}, {"op": "wait_end", "timeout": 4.0},
                                 {"op": "new_service", "s": "s1", "ctx": "driver", "force": True}, {"op": "adopt", "p": "q", "ctx": "thread", "force": True}, {"op": "reaccept_start"},
                                 {"op": "wait_start", "p": "q", "force": True}, {"op": "wait_start", "p": "s1", "force": True}, {"op": "step", "p": "s1", "force": True}, {"op": "step", "p": "q", "force": True},
                                 {"op": "polls", "n": 2, "force": True}], "shape": "targeted-restart-after-graceful-stop"})
    # adoption from inside a thread payload that runs a PRIVATE event loop of its own (asyncio
    # or trio): the payload still goes to the runtime's loop of the requested flavour
    for own in ("ownloop", "owntrio"):
        for late in scen.FLAVS:
            extra.append({"seed": ctx.seed, "jitter": 0.0, "payloads": {"h1": {"flavour": "threading"}, "c1": {"flavour": "trio"}, "late": {"flavour": late, "args": [2]}, "late2": {"flavour": late}},
                          "script": [{"op": "adopt", "p": "h1"}, {"op": "adopt", "p": "c1"}, {"op": "accept"}, {"op": "wait_running"}, {"op": "wait_start", "p": "h1"}, {"op": "wait_start", "p": "c1"},
                                     {"op": "adopt", "p": "late", "ctx": own + ":h1"}, {"op": "wait_start", "p": "late"}, {"op": "step", "p": "late"}, {"op": "adopt", "p": "late2", "ctx": own + ":h1"}, {"op": "wait_start", "p": "late2"}, {"op": "step", "p": "c1"}, {"op": "polls", "n": 2}],
                          "shape": "targeted-adopt-from-private-" + ("asyncio" if own == "ownloop" else "trio") + "-loop"})
    # a coroutine payload is busy between two checkpoints; meanwhile an outside thread adopts a
    # payload of the same flavour (it may have to wait for the busy one), then the busy payload
    # itself adopts: every adopt returns, everything is started
    for f in ("trio", "asyncio"):
        for late2 in scen.FLAVS:
            extra.append({"seed": ctx.seed, "jitter": 0.0, "payloads": {"c1": {"flavour": f}, "late": {"flavour": f, "args": [1]}, "late2": {"flavour": late2}, "late3": {"flavour": f}},
                          "script": [{"op": "adopt", "p": "c1"}, {"op": "accept"}, {"op": "wait_running"}, {"op": "wait_start", "p": "c1"},
                                     {"op": "seg", "p": "c1", "hold": 0.5, "adopt_after": "late2", "nowait": True}, {"op": "sleep", "ms": 150}, {"op": "adopt", "p": "late", "ctx": "thread"},
                                     {"op": "sleep", "ms": 500}, {"op": "wait_start", "p": "late"}, {"op": "wait_start", "p": "late2"}, {"op": "adopt", "p": "late3", "ctx": "payload:c1"}, {"op": "wait_start", "p": "late3"},
                                     {"op": "step", "p": "c1"}, {"op": "polls", "n": 2}], "shape": "targeted-outside-adopt-while-busy"})
    # ONE callable object adopted twice from outside threads while the flavour's thread is busy
    # (both hand-overs are pending at once): two payloads, each started once
    for f in ("trio", "asyncio"):
        extra.append({"seed": ctx.seed, "jitter": 0.0, "payloads": {"c1": {"flavour": f}, "p1": {"flavour": f, "same_callable": "g"}, "p2": {"flavour": f, "same_callable": "g"}, "p3": {"flavour": "threading", "same_callable": "h"}, "p4": {"flavour": "threading", "same_callable": "h"}},
                      "script": [{"op": "adopt", "p": "c1"}, {"op": "accept"}, {"op": "wait_running"}, {"op": "wait_start", "p": "c1"},
                                 {"op": "seg", "p": "c1", "hold": 0.4, "nowait": True}, {"op": "sleep", "ms": 100}, {"op": "adopt", "p": "p1", "ctx": "thread"}, {"op": "adopt", "p": "p2", "ctx": "thread"},
                                 {"op": "adopt", "p": "p3", "ctx": "thread"}, {"op": "adopt", "p": "p4", "ctx": "payload:c1"}, {"op": "wait_start", "p": "p1"}, {"op": "wait_start", "p": "p2"}, {"op": "wait_start", "p": "p3"}, {"op": "wait_start", "p": "p4"},
                                 {"op": "step", "p": "p1"}, {"op": "step", "p": "p2"}, {"op": "polls", "n": 2}], "shape": "targeted-one-callable-adopted-twice"})
    # services of classes derived from a service class: with a constructor of their own that
    # does not call the parent's, or declared a service once more
    for sub in ("nosuper", "redecorated"):
        for f in scen.FLAVS:
            extra.append({"seed": ctx.seed, "jitter": 0.0, "payloads": {"c1": {"flavour": "asyncio"}}, "services": {"s1": {"flavour": f, "sub": sub}, "s2": {"flavour": f, "sub": sub}},
                          "script": [{"op": "new_service", "s": "s1", "ctx": "driver"}, {"op": "adopt", "p": "c1"}, {"op": "accept"}, {"op": "wait_running"}, {"op": "wait_start", "p": "c1"}, {"op": "wait_start", "p": "s1"},
                                     {"op": "new_service", "s": "s2", "ctx": "thread"}, {"op": "wait_start", "p": "s2"}, {"op": "step", "p": "s1"}, {"op": "step", "p": "s2"}, {"op": "polls", "n": 3}], "shape": "targeted-derived-service-classes"})
    # a burst of adoptions from inside one synchronous step of a coroutine payload (nothing
    # can drain a hand-over buffer meanwhile): "for all numbers of payloads"
    for f, n in (("trio", 270), ("asyncio", 60)):
        burst = {"q%03d" % i: {"flavour": f} for i in range(1, n + 1)}
        pl = dict(burst)
        pl["c1"] = {"flavour": f}
        extra.append({"seed": ctx.seed, "jitter": 0.0, "poll": 0.05, "timeout": 25.0, "payloads": pl,
                      "script": [{"op": "adopt", "p": "c1"}, {"op": "accept"}, {"op": "wait_running"}, {"op": "wait_start", "p": "c1"}, {"op": "adopt_burst", "ctx": "payload:c1", "ps": sorted(burst)},
                                 {"op": "wait_start", "p": "q%03d" % n}, {"op": "wait_start", "p": "q001"}, {"op": "polls", "n": 3}], "shape": "targeted-adoption-burst"})
    # three independent parts, run side by side (each in its own scratch context):
    #  (1) the families of TLC-simulated behaviours + the targeted scripts,
    #  (2) the long adoption-burst traces (their validation takes TLC half a minute),
    #  (3) the registration / start-up kernel at hook granularity: Registration.tla, every
    #      transition of its state graph forced onto the real MetaRunner by the gate scheduler
    bursts = [s for s in extra if s["shape"] == "targeted-adoption-burst"]
    extra = [s for s in extra if s["shape"] != "targeted-adoption-burst"]

    def part_families(c):
        first = True
        for allow, ss in groups.items():
            scen.run_family(c, ss, names=NAMES, allow=allow, mc_invariants=["AtMostOnce", "AdoptReturnsNone", "DiscardOnlyWhenShuttingDown"], mc_properties=["ExactlyOnceLive"], per_shape=14 if thorough else 4, depth=40, label="c03" + "".join(a[:2] for a in allow), extra_scenarios=(extra if first else ()))
            first = False

    def part_bursts(c):
        scen.run_family(c, [], names=NAMES, allow=(), mc_invariants=[], mc_properties=[], per_shape=0, depth=1, label="c03burst", extra_scenarios=bursts)

    def part_proofs(c):
        # the kernels' safety invariants for ANY number of submitters and any flavours (TLAPS);
        # TLC decides them - and liveness, and NoneLost - for two or three
        from .. import tlaps
        c.extra["tlaps_proofs"] = [tlaps.prove(m) for m in ("RegistrationProofs", "ClosingProofs", "StoppingProofs")]

    parts = [part_families, part_bursts, regkernel.run, regkernel.run_closing, regkernel.run_stopping, part_proofs]
    subs = [ctx.child() for _ in parts]
    with ThreadPoolExecutor(max_workers=len(parts)) as ex:
        futs = [ex.submit(fn, c) for fn, c in zip(parts, subs)]
        for fu in futs:
            fu.result()
    for c in subs:
        ctx.merge(c)
    ctx.extra["rule"] = "shapes = flavour assignments of three payloads with argument tuples/dicts, one queued before start, two adopted afterwards from a thread or from inside a payload of each flavour; 0..2 services (one with a falsy instance) created before or after start; optionally a shutdown racing the submissions; TLC-simulated behaviours per shape + targeted adopt-while-closing scripts; plus forced schedules covering the transitions of Registration.tla (registration kernel at hook granularity)"
    ctx.assumptions = RT_ASSUMPTIONS + ["callers wait for the runner to report running before they adopt (the documented protocol); a submission that overlaps accept()'s own start-up is neither 'before' nor 'after' start (DESIGN 7.4)", "quiescence = the service loop has polled at least three more times after the last scripted action"]
