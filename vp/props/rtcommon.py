"""Shared replay() for the runtime checks."""
from ..rt import scen


def make_replay(names):
    def replay(ctx, payload):
        scn = payload["case"]["scenario"]
        raw = scen.run_one(scn)
        c, ev = scen.normalize(scn, raw)
        vs, _ = scen.validate([(c, ev)], "replay")
        v = vs[0]
        for name in sorted({n for _, n in v.pv if n in names}):
            idx = min(i for i, n in v.pv if n == name)
            ctx.add_violation(name, scen.fingerprint(name, scn, ev, idx), scen.describe(name, scn, ev, idx), {"scenario": scn})
        ctx.traces_total = 1
        ctx.samples = [ev[:40]]
        ctx.level = "exploration"
        ctx.distinct.update({"replay-a", "replay-b"})
    return replay


HOWS = {
    "val": ["val:0", "val:0.0", "val:False", "val:''", "val:[]", "val:()", "val:x", "val:obj"],
    "exc": ["exc:LookupError", "exc:UserExc", "exc:UserExcSub", "exc:RuntimeError", "exc:FalsyExc"],
    "base": ["base:UserBase", "base:SystemExit"],
    "kbd": ["base:KeyboardInterrupt"],
    "none": ["none"],
}
RT_ASSUMPTIONS = [
    "the model is the runtime's protocol (API calls, payload life cycle, phase changes reported by the hooks), not asyncio's or trio's internals; Python 3.12 / trio 0.34",
    "real runs are perturbed by seeded jitter at the hook points and a small GIL switch interval; only the controllable actions of a behaviour are forced, the runtime's own steps happen freely",
    "liveness clauses are observed as safety at the script's quiescence marker (the script waits up to 4 s for the runtime to react)",
]
