"""C09 - periodic services act once per interval, for as long as they run.

Specification: specs/Periodic.tla (EXTENDS Controllers.tla) + PeriodicTrace.tla.  Time in
eighths of a second.  TLC checks the timing formulas on the model for every interleaving of
wake-ups and environment actions placed before / on / after period boundaries, generates
timed behaviours by simulation, and validates traces recorded from the real services' run()
under trio's MockClock.  Every iteration of run() is observable without hooks because it
reads the recording pool (reads and writes are time-stamped with the virtual clock).
"""
import json
import random

from .. import core, tlc, traceval
from ..fixtures import RecPool, to_grid
from . import c08

NONE = c08.NONE
INVARIANTS = ["OncePerInterval", "NeverRaises", "LinearDrift", "BufferSilentBetweenBoundaries", "BufferAppliesLatest", "FactoryAdjusts"]
DUMMY = " Supplies = {}\n Demands = {}\n Fits = {}\n Intervals = {}\n DemandBound = 0\n Horizon = 0\n MaxEnv = 1000"
KINDS = ["linear", "relative", "stepwise", "switch", "buffer", "factory"]


def tla_scn(s):
    if s["kind"] in ("buffer", "factory"):
        return '[kind |-> "%s"]' % s["kind"]
    return c08.tla_scn(s)


def mc_module(name, scns, dom, sim=False):
    L = ["---- MODULE %s ----" % name, "EXTENDS Periodic, Json, FiniteSets"]
    for k in ("Supplies", "Demands", "Fits"):
        L.append("MC%s == {%s}" % (k, ", ".join(str(x) for x in dom[k])))
    L.append("MCIs == {%s}" % ", ".join(str(x) for x in dom["Is"]))
    L.append("MCScns == <<" + ",\n  ".join(tla_scn(s) for s in scns) + ">>")
    L.append("P0(su, d, u, a) == [supply |-> su, demand |-> d, util |-> u, alloc |-> a]")
    init = (
        "\\E i \\in 1..Len(MCScns) : \\E iv \\in MCIs : \\E su \\in MCSupplies, d \\in MCDemands, u \\in MCFits, a \\in MCFits :\n"
        '    IF MCScns[i].kind = "factory" THEN d = 0 /\\ u = 4 /\\ a = 4 /\\ PInitWith(MCScns[i], P0(su, 0, 4, 4), iv, 1, 1)\n'
        '    ELSE IF MCScns[i].kind = "buffer" THEN u = 4 /\\ a = 4 /\\ su = 0 /\\ PInitWith(MCScns[i], P0(0, d, 4, 4), iv, d, 0)\n'
        '    ELSE (MCScns[i].kind = "stepwise" => MCScns[i].iv = iv \\div 2) /\\ PInitWith(MCScns[i], P0(su, d, u, a), iv, 0, 0)'
    )
    if not sim:
        L.append("MCInit == " + init)
        L.append("MCSpec == MCInit /\\ [][PNext]_pvars")
    else:
        # environment instants are fixed in the initial state, so random simulation spreads
        # them uniformly over the instants just before / on / just after the boundaries
        # a coin flipped at every tick decides whether the environment acts at the next
        # instant that is just before / on / just after a boundary: spreads the actions
        L.append("VARIABLES hist, coin, acted, pool0")
        L.append("Near == (now % I) \\in {0, 1, I - 1}")
        L.append("Must == coin = 1 /\\ Near /\\ nenv < %d /\\ ~acted" % dom["MaxEnv"])
        L.append("SimInit == (" + init + ") /\\ hist = <<>> /\\ coin \\in 1..3 /\\ acted = FALSE /\\ pool0 = pool")
        L.append(
            "SimNext == /\\ PNext /\\ UNCHANGED pool0\n"
            "           /\\ IF now' # now THEN ~Must /\\ coin' \\in 1..3 /\\ acted' = FALSE /\\ hist' = hist\n"
            "              ELSE IF nenv' # nenv THEN Must /\\ acted' = TRUE /\\ coin' = coin /\\ hist' = Append(hist, [a |-> act', t |-> now])\n"
            "              ELSE UNCHANGED <<coin, acted>> /\\ hist' = Append(hist, [a |-> act', t |-> now])"
        )
        L.append("SimSpec == SimInit /\\ [][SimNext]_<<pvars, hist, coin, acted, pool0>>")
        L.append('EmitPath == now < %d \\/ (PrintT(<<"PATH", ToJson([scn |-> scn, I |-> I, hist |-> hist, pool0 |-> pool0])>>) /\\ FALSE)' % dom["Horizon"])
    L.append("====")
    return "\n".join(L)


def mc_cfg(dom, sim=False):
    cfg = "SPECIFICATION %s\nCONSTANTS\n Supplies <- MCSupplies\n Demands <- MCDemands\n Fits <- MCFits\n Intervals = {}\n DemandBound = 1000\n Horizon = %d\n MaxEnv = %d\n" % ("SimSpec" if sim else "MCSpec", dom["Horizon"], dom["MaxEnv"])
    if sim:
        cfg += "CONSTRAINT EmitPath\n"
    else:
        cfg += "".join("INVARIANT %s\n" % i for i in INVARIANTS + c08.INVARIANTS)
    return cfg


# ------------------------------------------------------------------ driver
def execute(case):
    """case: {scn, pool, I, env:[{t, e:"Set", attr, v} | {t, e:"Write", v}], T}"""
    import trio
    import trio.testing

    scn, p0, I = case["scn"], case["pool"], case["I"]
    kind = scn["kind"]
    # the model counts eighths of a second; the real clock runs in units of ts/8 s, so that the
    # real intervals also include values no binary float represents exactly (0.1, 0.8, 1.1 ...)
    # (only for services whose arithmetic does not multiply by the interval: a LinearController
    #  moves demand by rate * interval, which must stay on the grid)
    ts = case.get("ts", 1.0) if kind in ("relative", "stepwise", "buffer", "factory") else 1.0
    interval = I / 8 * ts
    events = []
    st = {"env": False, "open": None, "accesses": 0}

    def now8():
        t = (trio.current_time() - st.get("t0", 0.0)) / ts * 8
        assert abs(t - round(t)) < 1e-6, t
        return int(round(t))

    class TimedPool(RecPool):
        """every access by the service (not by the environment script) is time-stamped"""

        def _note(self, write=None):
            if st["env"]:
                return
            st["accesses"] += 1
            if st["accesses"] > 4000:
                # a service that keeps acting without the clock moving on would never end
                raise RuntimeError("runaway service: thousands of accesses within one run")
            t = now8()
            if st["open"] is None or st["open"]["t"] != t:
                close_step()
                st["open"] = {"e": "Step", "t": t, "called": [], "argsok": True}
                events.append(st["open"])

        supply = property(lambda self: (self._note(), self._supply)[1])
        utilisation = property(lambda self: (self._note(), self._utilisation)[1])
        allocation = property(lambda self: (self._note(), self._allocation)[1])

        @property
        def demand(self):
            self._note()
            return self._demand

        @demand.setter
        def demand(self, value):
            self._note(write=value)
            self._demand = value

    pool = TimedPool(supply=p0["supply"] / 16, demand=p0["demand"] / 16, utilisation=p0["util"] / 4, allocation=p0["alloc"] / 4)
    log = c08.CallLog()
    log.expected_interval = interval

    def observe():
        st["env"] = True
        try:
            return c08.observe(pool)
        finally:
            st["env"] = False

    fstate = {"n": 0}

    def close_step():
        o = st["open"]
        if o is not None and "p" not in o:
            o["p"] = observe()
            o["called"] = [c[0] for c in log]
            o["argsok"] = all(c[1] for c in log)
            del log[:]
            o["fcount"] = (len([c for c in kids if c._demand > 0 and c in svc.children]) if kind == "factory" else 0)
        st["open"] = None

    if kind == "buffer":
        from cobald.decorator.buffer import Buffer

        st["env"] = True
        svc = Buffer(pool, window=interval) if interval != 10.0 else Buffer(pool)   # 10 s is the documented default
        st["env"] = False
        pending0, fcount0 = p0["demand"], 0
    elif kind == "factory":
        from cobald.composite.factory import FactoryPool

        child0 = TimedPool(supply=p0["supply"] // 16, demand=1, utilisation=1.0, allocation=1.0)
        kids = [child0]

        def factory():
            if len(kids) > 64:
                raise RuntimeError("runaway: the pool keeps asking its factory for children")
            c = RecPool(supply=0, demand=1, utilisation=1.0, allocation=1.0)
            kids.append(c)
            return c

        st["env"] = True
        svc = FactoryPool(child0, factory=factory, interval=interval)
        st["env"] = False
        pending0, fcount0 = 16, 1
    else:
        s2 = dict(scn)
        st["env"] = True
        svc = build_ctl(s2, pool, log, interval)
        st["env"] = False
        pending0, fcount0 = 0, 0

    async def service():
        try:
            await svc.run()
        except Exception as e:  # noqa - anything leaving run() is what NeverRaises is about
            close_step()
            events.append({"e": "Raised", "t": now8(), "exc": type(e).__name__})

    async def main():
        async with trio.open_nursery() as nursery:
            nursery.start_soon(service)
            for op in sorted(case["env"], key=lambda o: o["t"]):
                await trio.sleep_until(op["t"] / 8 * ts)
                close_step()
                if op["e"] == "Quit":
                    # a spawned child gives up (only when there is one, next to the first child)
                    quitters = [c for c in kids[1:] if c._demand > 0 and c in svc.children]
                    if quitters and kids[0]._demand > 0:
                        quitters[0]._demand = 0
                        events.append(dict(op))
                elif op["e"] == "Set":
                    st["env"] = True
                    try:
                        c08.apply_set(pool, op["attr"], op["v"])
                    finally:
                        st["env"] = False
                    events.append(dict(op))
                else:
                    # a write THROUGH the service: whatever it makes the service do to its
                    # target right away is the service acting (at this time, not on its period)
                    events.append(dict(op))
                    svc.demand = op["v"] / 16
                    close_step()
            await trio.sleep_until(case["T"] / 8 * ts)
            close_step()
            events.append({"e": "End", "t": case["T"]})
            nursery.cancel_scope.cancel()
        rs = case.get("restart")
        if rs and kind in ("linear", "relative", "stepwise", "switch") and not any(e["e"] == "Raised" for e in events):
            # the same service object is run once more after a pause (a runtime that is
            # restarted): again one step at once, then one per interval counted from THIS start
            second["events1"] = list(events)
            del events[:]
            await trio.sleep(rs["pause"] / 8 * ts)
            st["t0"] = trio.current_time()
            st["open"] = None
            del log[:]
            second["pool"] = observe()
            async with trio.open_nursery() as nursery:
                nursery.start_soon(service)
                await trio.sleep_until(st["t0"] + rs["T"] / 8 * ts)
                close_step()
                events.append({"e": "End", "t": rs["T"]})
                nursery.cancel_scope.cancel()

    second = {}
    trio.run(main, clock=trio.testing.MockClock(autojump_threshold=0))
    close_step()
    if second:
        first = {"scn": scn, "pool": p0, "I": I, "pending": pending0, "fcount": fcount0, "events": second["events1"], "T": case["T"]}
        return dict(first, second={"scn": scn, "pool": second["pool"], "I": I, "pending": 0, "fcount": 0, "events": list(events), "T": rs_T(case)})
    if kind == "factory":
        pending0 = 1
    return {"scn": scn, "pool": p0, "I": I, "pending": pending0, "fcount": fcount0, "events": events, "T": case["T"]}


def rs_T(case):
    return case["restart"]["T"]


def build_ctl(scn, pool, log, interval):
    from cobald.controller.linear import LinearController
    from cobald.controller.relative_supply import RelativeSupplyController
    from cobald.controller.stepwise import Stepwise
    from cobald.controller.switch import DemandSwitch

    k = scn["kind"]
    if k == "linear":
        kw = {"low_utilisation": scn["low"] / 4, "high_allocation": scn["high"] / 4, "rate": scn["rate"] / 4, "interval": interval}
        for name, default in (("low_utilisation", 0.5), ("high_allocation", 0.5), ("rate", 1), ("interval", 1)):
            if kw[name] == default:
                del kw[name]  # a parameter with its documented default value is left to the default
        return LinearController(pool, **kw)
    if k == "relative":
        kw = {"low_utilisation": scn["low"] / 4, "high_allocation": scn["high"] / 4, "low_scale": scn["lscale"] / 4, "high_scale": scn["hscale"] / 4, "interval": interval}
        for name, default in (("low_utilisation", 0.5), ("high_allocation", 0.5), ("interval", 1)):
            if kw[name] == default:
                del kw[name]
        return RelativeSupplyController(pool, **kw)
    if k == "stepwise":
        def mk(rid):
            def rule(p, iv):
                log.append((rid, p is pool and iv == interval))
                r = scn["res"][rid]
                return None if r == NONE else r / 16
            return rule
        kw = {} if interval == 1 else {"interval": interval}   # the documented default is left to the default
        return Stepwise(pool, mk(scn["base"]), *[(thr / 16, mk(rid)) for thr, rid in scn["rules"]], **kw)
    if k == "switch":
        class LoggingLinear(LinearController):
            def regulate(self, iv):
                log.append((self.sid, self.target is pool and iv == interval))
                return super().regulate(iv)

        def mk(sid):
            c = LoggingLinear(None, low_utilisation=0.5, high_allocation=0.5, rate=scn["srate"][sid] / 4)
            c.sid = sid
            return c
        flat = []
        for thr, sid in scn["slaves"]:
            flat += [thr / 16, mk(sid)]
        return DemandSwitch(pool, mk(scn["default"]), *flat, interval=interval) if interval != 1 else DemandSwitch(pool, mk(scn["default"]), *flat)
    raise ValueError(k)


def scenarios():
    out = {
        "linear": [{"kind": "linear", "low": 2, "high": 2, "rate": 4}, {"kind": "linear", "low": 1, "high": 3, "rate": 2}],
        "relative": [{"kind": "relative", "low": 2, "high": 2, "lscale": 2, "hscale": 6}],
        "stepwise": [{"kind": "stepwise", "rules": [[32, "r1"], [16, "r2"]], "base": "r0", "res": {"r0": 16, "r1": NONE, "r2": 48}, "iv": iv} for iv in (1, 2, 4, 5)],
        "switch": [{"kind": "switch", "slaves": [[32, "s1"], [16, "s2"]], "default": "s0", "srate": {"s0": 1, "s1": 2, "s2": 4}}],
        "buffer": [{"kind": "buffer"}],
        "factory": [{"kind": "factory"}],
    }
    return out


def case_of_path(p):
    scn, I = p["scn"], p["I"]
    env = []
    for h in p["hist"]:
        a = h["a"]
        if a["name"] == "Set":
            env.append({"t": h["t"], "e": "Set", "attr": a["attr"], "v": a["v"]})
        elif a["name"] == "Write":
            env.append({"t": h["t"], "e": "Write", "v": a["v"]})
        elif a["name"] == "Quit":
            env.append({"t": h["t"], "e": "Quit"})
    return scn, I, env


def random_case(rnd, scns):
    kind = rnd.choice(KINDS)
    scn = rnd.choice(scns[kind])
    I = rnd.choice([2, 4, 8, 10])
    default_window = kind == "buffer" and rnd.random() < 0.15
    if default_window:
        I = 80   # a Buffer left to its default window of 10 s
    if kind == "stepwise":
        scn = dict(scn, iv=I // 2)
    T = rnd.choice([2, 3, 5, 6]) * I + rnd.choice([1, I - 1]) if I > 2 else rnd.choice([5, 9, 13])
    pool = {"supply": rnd.choice([0, 16, 32, 64]), "demand": rnd.choice([0, 16, 32, 64]), "util": rnd.randrange(0, 5), "alloc": rnd.randrange(0, 5)}
    if kind == "buffer":
        pool = {"supply": 0, "demand": pool["demand"], "util": 4, "alloc": 4}
    if kind == "factory":
        pool = {"supply": rnd.choice([0, 0, 16, 32, 48]), "demand": 0, "util": 4, "alloc": 4}
    env = []
    for _ in range(rnd.randrange(0, 6)):
        b = rnd.randrange(0, T // I + 1) * I
        t = min(max(b + rnd.choice([-1, 0, 0, 1, I // 2]), 0), T - 1) if T > 1 else 0
        if kind in ("buffer", "factory") and rnd.random() < 0.7:
            v = rnd.choice([0, 16, 32, 48, 64]) if kind == "buffer" else rnd.choice([1, 2, 3, 4]) * 16
            env.append({"t": t, "e": "Write", "v": v})
        elif kind == "factory":
            env.append({"t": t, "e": "Quit"})
        elif kind == "buffer":
            env.append({"t": t, "e": "Set", "attr": "demand", "v": rnd.choice([0, 16, 32, 48])})
        else:
            attr = rnd.choice(["supply", "demand", "util", "alloc"])
            if kind == "linear" and attr == "demand":
                attr = "util"
            env.append({"t": t, "e": "Set", "attr": attr, "v": rnd.choice([0, 16, 32, 64]) if attr in ("supply", "demand") else rnd.randrange(0, 5)})
    return {"scn": scn, "pool": pool, "I": I, "env": env, "T": T, "src": "random", "ts": 1.0 if default_window else rnd.choice([1.0, 1.0, 0.8, 1.1, 0.3]),
            "restart": {"pause": rnd.choice([1, 3, I, I + 1, 2 * I + 3]), "T": rnd.choice([2, 3]) * I + rnd.choice([0, 1, I - 1])} if rnd.random() < 0.3 else None}


def judge(ctx, cases, traces, verdicts):
    for case, tr, v in zip(cases, traces, verdicts):
        ctx.traces_total += 1
        ctx.events_total += len(tr["events"])
        if v.accepted:
            ctx.traces_accepted += 1
        if v.nc is not None:
            ctx.traces_nc += 1
        raised = [e for e in tr["events"] if e["e"] == "Raised"]
        for name in sorted({n for _, n in v.pv}):
            idx = min(i for i, n in v.pv if n == name)
            fp = {"invariant": name, "kind": tr["scn"]["kind"]}
            if raised:
                fp["exception"] = raised[0]["exc"]
            ctx.add_violation(name, fp, "%s service, interval %s/8 s: event %d %s violates %s; events: %s" % (tr["scn"]["kind"], tr["I"], idx, json.dumps(tr["events"][idx - 1]), name, json.dumps(tr["events"])[:700]), case, detail={"trace": tr})
        if v.nc is not None and not v.pv:
            ctx.add_drift("event %d %s of a %s service (interval %s/8) is not a step of Periodic.tla; events %s" % (v.nc[0], json.dumps(tr["events"][v.nc[0] - 1]), tr["scn"]["kind"], tr["I"], json.dumps(tr["events"])[:500]), case)
        ctx.note_distinct([tr["scn"]["kind"], tr["I"], [(e["e"], e["t"]) for e in tr["events"]]])


def run(ctx):
    thorough = ctx.tier == "thorough"
    rnd = random.Random(ctx.seed)
    scns = scenarios()
    flat = [s for k in KINDS for s in scns[k]]
    from concurrent.futures import ThreadPoolExecutor

    def model(kind):
        dom = {"Supplies": [0, 32], "Demands": [0, 32], "Fits": [0, 4], "Is": [2, 4] if not thorough else [2, 4, 10], "Horizon": 9 if not thorough else 21, "MaxEnv": 2}
        return tlc.run("MCPer_" + kind, mc_cfg(dom), module_text=mc_module("MCPer_" + kind, scns[kind], dom), timeout=3000, workers=4)

    def sim(kind):
        dom = {"Supplies": [0, 16, 32, 64], "Demands": [0, 16, 32, 48], "Fits": [0, 2, 4], "Is": [2, 4, 8, 10], "Horizon": 33, "MaxEnv": 4}
        return tlc.simulate_paths("MCPerSim_" + kind, mc_cfg(dom, sim=True), mc_module("MCPerSim_" + kind, scns[kind], dom, sim=True), num=400 if thorough else 40, depth=200, seed=ctx.seed + KINDS.index(kind), timeout=3000)

    with ThreadPoolExecutor(max_workers=6) as ex:
        mres = dict(zip(KINDS, ex.map(model, KINDS)))
        sres = dict(zip(KINDS, ex.map(sim, KINDS)))
    cases = []
    for kind in KINDS:
        ctx.model_must_hold("Periodic model " + kind, mres[kind])
        ctx.add_model_run("Periodic.tla/%s" % kind, mres[kind])
        paths, _ = sres[kind]
        budget = 1500 if thorough else 250
        if len(paths) > budget:
            paths = rnd.sample(paths, budget)
        for p in paths:
            scn, I, env = case_of_path(p)
            cases.append({"scn": scn, "I": I, "env": env, "T": 33, "pool": p["pool0"], "src": "tlc-simulate", "ts": [1.0, 0.8, 1.1][len(cases) % 3]})
    ctx.extra["behaviours_replayed"] = len(cases)
    for _ in range(5000 if thorough else 900):
        cases.append(random_case(rnd, scns))
    traces = []
    cases0, cases = cases, []
    for c in cases0:
        try:
            t = execute(c)
        except BaseException as e:  # noqa
            raise tlc.MachineryError("driver failed (%r) on case %s" % (e, json.dumps(c)))
        t2 = t.pop("second", None)
        cases.append(c)
        traces.append(t)
        if t2 is not None:
            cases.append(dict(c, epoch=2))
            traces.append(t2)
    verdicts, tstates = traceval.validate("PeriodicTrace", traces, DUMMY, timeout=3000)
    ctx.extra["trace_states"] = tstates
    judge(ctx, cases, traces, verdicts)
    ctx.samples = [traces[0], traces[-1]]
    ctx.extra["rule"] = "cases = timed behaviours generated by TLC -simulate (environment instants fixed in the initial state, just before / on / after boundaries) + random timed histories; distinct non-trivial = distinct (service kind, interval, sequence of (event, time))"
    ctx.assumptions = [
        "virtual time (trio MockClock, autojump); all instants are multiples of ts/8 s with ts in {1, 0.8, 1.1, 0.3} (so real intervals include values without an exact binary representation), model intervals 1/4 .. 5/4; runs of up to ~4 s",
        "an iteration of run() is recognised by its first access to the recording pool at a new instant (every shipped service reads its target in every iteration); FactoryPool is given one initial child so that it reads too",
        "LinearDrift is about the controller's own changes: the drift history restarts when the environment writes the pool's demand",
    ]


def replay(ctx, payload):
    c = payload["case"]
    t = execute(c)
    t2 = t.pop("second", None)
    ts_, cs_ = ([t, t2], [c, dict(c, epoch=2)]) if t2 is not None else ([t], [c])
    verdicts, _ = traceval.validate("PeriodicTrace", ts_, DUMMY)
    judge(ctx, cs_, ts_, verdicts)
    ctx.samples = [t]
    ctx.level = "exploration"
    ctx.distinct.update({"replay-a", "replay-b"})
