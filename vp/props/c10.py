"""C10 - execute hands the payload's outcome to the caller and leaves the runtime alone.

Runtime.tla / RuntimeTrace.tla; shapes = execute() for each flavour x calling context (outside
thread, thread payload, coroutine payload of another flavour) x outcomes (None, falsy and
truthy values, Exception subclasses) x argument lists, as sequences of up to three calls
interleaved with adopted payloads running in the background.
"""
import itertools
import random

from ..rt import scen
from .rtcommon import HOWS, RT_ASSUMPTIONS, make_replay

NAMES = ["ExecOnce", "ExecArgsExact", "ExecOutcomeIdentity", "ExecRightFlavour", "ExecNotAFailureObserved", "ExecReturnsObserved", "AtMostOnce"]
replay = make_replay(NAMES)
EXEC_HOWS = ["none", "val:excobj", "val:awaitable", "val:0", "val:0.0", "val:False", "val:''", "val:[]", "val:()", "val:x", "val:obj", "exc:LookupError", "exc:UserExc", "exc:UserExcSub", "exc:RuntimeError", "exc:ValueError", "exc:TimeoutError"]


def shapes(thorough, rnd):
    out = []
    for n, (xf, ctxk) in enumerate(itertools.product(scen.FLAVS, ["outside", "thread_payload", "coroutine_payload"])):
        bys = {"b1": {"flavour": "asyncio", "cleanup": 1}, "b2": {"flavour": "trio", "cleanup": 1}, "b3": {"flavour": "threading"}}
        if ctxk == "outside":
            ctxs = ["driver", "thread"]
        elif ctxk == "thread_payload":
            ctxs = ["payload:b3"]
        else:
            # a coroutine payload of ANOTHER flavour than the executed one
            ctxs = ["payload:" + b for b, v in bys.items() if v["flavour"] in ("asyncio", "trio") and v["flavour"] != xf]
        payloads = dict(bys)
        nx = 3 if thorough else 2
        xp = {}
        for k in range(nx):
            # argument lists incl. empty / longer tuples as single positionals; every second
            # executed coroutine payload is a plain callable (its CALL may already fail)
            args = [[k, "a"], [{"__tuple__": []}, {"__tuple__": [k, "b"]}], [{"__tuple__": [k, k, k]}]][(k + n) % 3]
            xp["x%dp" % (k + 1)] = {"flavour": xf, "args": args, "kwargs": {"kw": [k]}, "plaincall": (k + n) % 2 == 1}
        payloads.update(xp)
        # an executed payload that itself executes a payload of another flavour before it ends
        # (trio -> asyncio -> threading and the like), and a callable OBJECT without a hash
        # executed without any arguments
        # (used by the targeted scripts only: they are not part of the model-checked population)
        others = [f for f in scen.FLAVS if f != xf]
        nested = {"n2": {"flavour": others[1], "args": [], "kwargs": {}}, "n1": {"flavour": others[0], "args": [n], "kwargs": {}, "nested": "n2"},
                  "xn": {"flavour": xf, "args": [], "kwargs": {}, "nested": "n1", "unhashable": n % 2 == 0}, "xu": {"flavour": xf, "args": [], "kwargs": {}, "unhashable": True}}
        proto = [{"op": "adopt", "p": "b1"}, {"op": "adopt", "p": "b2"}, {"op": "adopt", "p": "b3"}, {"op": "accept"}] + [{"op": "execute", "p": p, "how": "none"} for p in xp]
        out.append({"title": "execute flavour %s from %s" % (xf, ctxk), "payloads": payloads, "proto_script": proto, "hows": {p: HOWS for p in payloads},
                    "exec_payloads": sorted(xp), "exec_hows": EXEC_HOWS, "exec_ctx": ctxs, "pre_all": ["b1", "b2", "b3"], "nested": nested})
    return out


def fix_script(base, script):
    """bystanders are adopted before start (so they can serve as calling contexts) and get a
    step after the executes: they must still be alive"""
    pre = [{"op": "adopt", "p": b, "ctx": "driver"} for b in base["pre_all"]]
    rest = [o for o in script if not (o["op"] == "adopt" and o.get("p") in base["pre_all"])]
    i = next(k for k, o in enumerate(rest) if o["op"] == "wait_running")
    waits = [{"op": "wait_start", "p": b} for b in base["pre_all"]]
    rest = [o for o in rest if not (o["op"] == "wait_start" and o.get("p") in base["pre_all"])]
    body = rest[: i + 1] + waits + rest[i + 1:]
    tail = [{"op": "step", "p": b} for b in base["pre_all"]]
    body = [o for o in body if o["op"] != "polls"]
    return pre + body + tail + [{"op": "polls", "n": 2}]


def run(ctx):
    thorough = ctx.tier == "thorough"
    rnd = random.Random(ctx.seed)
    sh = shapes(thorough, rnd)
    for s in sh:
        s["mc_light"] = not thorough
    # nested executes (an executed payload executes a payload of another flavour, which executes
    # one of the third) and callable objects without a hash, from every non-coroutine context
    extra = []
    for base in sh[::3]:
        for k, cx in enumerate(("driver", "thread", "payload:b3")):
            pre = [{"op": "adopt", "p": b, "ctx": "driver"} for b in base["pre_all"]]
            script = pre + [{"op": "accept"}, {"op": "wait_running"}] + [{"op": "wait_start", "p": b} for b in base["pre_all"]]
            script += [{"op": "execute", "p": "xn", "ctx": cx, "how": EXEC_HOWS[(k * 5) % len(EXEC_HOWS)]}, {"op": "execute", "p": "xu", "ctx": cx, "how": EXEC_HOWS[(k * 3 + 1) % len(EXEC_HOWS)]}]
            script += [{"op": "step", "p": b} for b in base["pre_all"]] + [{"op": "polls", "n": 2}]
            extra.append({"seed": ctx.seed + k, "jitter": 0.0, "payloads": dict(base["payloads"], **base["nested"]), "script": script, "shape": "targeted-nested-and-unhashable-executes"})
    # every Exception subclass an executed payload may raise reaches the caller as it is - also
    # the ones the framework's own waiting could be confused by (TimeoutError)
    for base in sh:
        xf = base["payloads"]["x1p"]["flavour"]
        pre = [{"op": "adopt", "p": b, "ctx": "driver"} for b in base["pre_all"]]
        script = pre + [{"op": "accept"}, {"op": "wait_running"}] + [{"op": "wait_start", "p": b} for b in base["pre_all"]]
        script += [{"op": "execute", "p": "x1p", "ctx": base["exec_ctx"][0], "how": "exc:TimeoutError"}, {"op": "execute", "p": "x2p", "ctx": base["exec_ctx"][-1], "how": "exc:TimeoutError"}]
        # (... or that the framework's own machinery raises for reasons of its own: RuntimeError)
        script += [{"op": "execute", "p": "x1p", "ctx": base["exec_ctx"][-1], "how": "exc:RuntimeError"}, {"op": "execute", "p": "x2p", "ctx": base["exec_ctx"][0], "how": "exc:LookupError"}]
        # (... or an exception GROUP, with one member: it is the group that the payload raised)
        script += [{"op": "execute", "p": "x1p", "ctx": base["exec_ctx"][0], "how": "exc:Group1"}]
        script += [{"op": "step", "p": b} for b in base["pre_all"]] + [{"op": "polls", "n": 2}]
        extra.append({"seed": ctx.seed, "jitter": 0.0, "payloads": base["payloads"], "script": script, "shape": "targeted-execute-raises-timeouterror-" + xf})
    # a payload may RETURN an exception object (it is a value like any other), and execute() may
    # be called from a worker thread of a thread payload's private asyncio / trio loop
    for k, base in enumerate(sh):
        pre = [{"op": "adopt", "p": b, "ctx": "driver"} for b in base["pre_all"]]
        script = pre + [{"op": "accept"}, {"op": "wait_running"}] + [{"op": "wait_start", "p": b} for b in base["pre_all"]]
        hp = next((b for b in base["pre_all"] if base["payloads"][b]["flavour"] == "threading"), None)
        own = [{"op": "execute", "p": "x1p", "ctx": ("ownloop:" if k % 2 else "owntrio:") + hp, "how": "val:x"}, {"op": "execute", "p": "x2p", "ctx": "ownloopdirect:" + hp, "how": "exc:UserExc"}] if hp else []
        script += [{"op": "execute", "p": "x1p", "ctx": base["exec_ctx"][0], "how": "val:excobj"}, {"op": "execute", "p": "x2p", "ctx": base["exec_ctx"][-1], "how": "val:baseobj"}] + own
        script += [{"op": "step", "p": b} for b in base["pre_all"]] + [{"op": "polls", "n": 2}]
        extra.append({"seed": ctx.seed, "jitter": 0.0, "payloads": base["payloads"], "script": script, "shape": "targeted-execute-returns-exception-object"})
    # execute in a first run of the runtime, a graceful stop, a second run of the same runtime
    # and execute again (the second run is validated as an epoch of its own)
    for k, xf in enumerate(scen.FLAVS):
        extra.append({"seed": ctx.seed + k, "jitter": 0.0, "reaccept": True, "epoch": 2, "payloads": {"a1": {"flavour": "asyncio", "cleanup": 1}, "b1": {"flavour": "trio"}, "x1p": {"flavour": xf}, "x2p": {"flavour": xf, "args": [1]}},
                      "script": [{"op": "adopt", "p": "a1"}, {"op": "accept"}, {"op": "wait_running"}, {"op": "wait_start", "p": "a1"}, {"op": "execute", "p": "x1p", "ctx": "thread", "how": "val:x"},
                                 {"op": "shutdown", "ctx": "thread", "wait": True}, {"op": "wait_end", "timeout": 4.0},
                                 {"op": "adopt", "p": "b1", "ctx": "thread", "force": True}, {"op": "reaccept_start"}, {"op": "wait_start", "p": "b1", "force": True},
                                 {"op": "execute", "p": "x2p", "ctx": "thread", "how": "val:obj", "force": True}, {"op": "step", "p": "b1", "force": True},
                                 {"op": "shutdown", "ctx": "thread", "wait": True}, {"op": "reaccept_wait", "timeout": 4.0}], "shape": "targeted-execute-after-restart"})
    # execute() from a thread payload while the runtime is closing (the service loop has already
    # left, the runners are still up): the outcome is handed over all the same
    for f in ("asyncio", "trio"):
        for ms in (5, 40):
            extra.append({"seed": ctx.seed, "jitter": 0.0, "payloads": {"c1": {"flavour": f, "cleanup": 2, "shielded": 2 if f == "trio" else 0}, "c2": {"flavour": f, "cleanup": 1}, "h1": {"flavour": "threading"}, "x1p": {"flavour": f, "args": [1], "kwargs": {"k": 2}}},
                          "script": [{"op": "adopt", "p": "c1"}, {"op": "adopt", "p": "c2"}, {"op": "adopt", "p": "h1"}, {"op": "accept"}, {"op": "wait_running"}, {"op": "wait_start", "p": "c1"}, {"op": "wait_start", "p": "c2"}, {"op": "wait_start", "p": "h1"},
                                     {"op": "shutdown", "ctx": "thread", "wait": False}, {"op": "sleep", "ms": ms}, {"op": "execute", "p": "x1p", "ctx": "payload:h1", "how": "val:x"}, {"op": "wait_end"}], "shape": "targeted-execute-while-closing"})
    scen.run_family(ctx, sh, names=NAMES, allow=(), extra_scenarios=extra, mc_invariants=["AtMostOnce", "FailStopSafe"], mc_properties=["ExecLive"], per_shape=40 if thorough else 5, depth=40, label="c10", script_hook=fix_script)
    ctx.extra["rule"] = "shapes = executed flavour x calling context (outside thread, thread payload, coroutine payload of another flavour); per behaviour 2..3 execute calls with outcomes drawn from None / falsy and truthy values / Exception subclasses and with positional and keyword arguments, interleaved with steps of adopted bystanders of all flavours"
    ctx.assumptions = RT_ASSUMPTIONS + ["no two blocking executes wait on each other's loop thread (execute is documented as blocking; DESIGN 7.5)", "identity of the outcome is checked with `is` inside the harness and logged as a boolean"]
