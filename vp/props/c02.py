"""C02 - termination cancels every coroutine payload and finishes its cleanup first.

Runtime.tla / RuntimeTrace.tla; shapes = termination trigger (failure of each flavour and kind,
SIGINT, shutdown) x populations of still-running coroutine payloads (sleeping, spinning,
adopted late or from another payload, synchronous and shielded cleanup of varying length) x an
optional blocked thread payload.
"""
import itertools
import random

from ..rt import scen
from .rtcommon import HOWS, RT_ASSUMPTIONS, make_replay

NAMES = ["CleanupBeforeEnd", "NoStepAfterEnd", "TerminationObserved"]
replay = make_replay(NAMES)


def shapes(thorough, rnd):
    out = []
    triggers = [("fail", f, k) for f in scen.FLAVS for k in ("exc", "val", "base", "kbd")] + [("sigint", "", ""), ("shutdown", "", "")]
    if not thorough:
        triggers = [t for i, t in enumerate(triggers) if i % 2 == 0 or t[0] != "fail"]
    pops = [
        {"a1": {"flavour": "asyncio", "cleanup": 2}, "t1": {"flavour": "trio", "cleanup": 1, "shielded": 2}},
        {"a1": {"flavour": "asyncio", "cleanup": 1, "spin": True}, "a2": {"flavour": "asyncio", "cleanup": 0}, "t1": {"flavour": "trio", "cleanup": 0, "shielded": 1, "spin": True}},
        {"t1": {"flavour": "trio", "cleanup": 2, "shielded": 0}, "t2": {"flavour": "trio", "cleanup": 0, "shielded": 2}, "h1": {"flavour": "threading"}},
        {"a1": {"flavour": "asyncio", "cleanup": 2}, "h1": {"flavour": "threading"}},
    ]
    for n, (kind, f, k) in enumerate(triggers):
        pop = {p: dict(v) for p, v in pops[n % len(pops)].items()}
        payloads = dict(pop)
        proto = [{"op": "adopt", "p": sorted(pop)[0]}, {"op": "accept"}]
        allow = ()
        if kind == "fail":
            payloads["f"] = {"flavour": f}
            proto.append({"op": "end", "p": "f", "how": HOWS[k][0]})
        ctx = {p: ["driver", "thread"] + ["payload:" + q for q in pop if q != p and q.startswith(("a", "h"))] for p in payloads}
        out.append({"title": "trigger %s %s %s over %s" % (kind, f, k, sorted(pop)), "payloads": payloads, "proto_script": proto, "hows": {p: HOWS for p in payloads}, "ctx": ctx,
                    "allow": ("sigint",) if kind == "sigint" else ("shutdown",) if kind == "shutdown" else (), "block": "h1" if "h1" in pop and n % 2 == 0 else None})
    return out


def run(ctx):
    thorough = ctx.tier == "thorough"
    rnd = random.Random(ctx.seed)
    sh = shapes(thorough, rnd)
    groups = {}
    for s in sh:
        groups.setdefault(s["allow"], []).append(s)
    # the interleaving-independent core of each trigger as targeted scripts (every failure kind)
    extra = []
    for how in ("base:SystemExit", "base:UserBase", "base:KeyboardInterrupt", "exc:UserExc", "val:0"):
        for ff in scen.FLAVS:
            extra.append({"seed": ctx.seed, "jitter": 0.0, "payloads": {"f": {"flavour": ff}, "t1": {"flavour": "trio", "cleanup": 1, "shielded": 2}, "a1": {"flavour": "asyncio", "cleanup": 2}},
                          "script": [{"op": "adopt", "p": "f"}, {"op": "adopt", "p": "t1"}, {"op": "accept"}, {"op": "wait_running"}, {"op": "adopt", "p": "a1", "ctx": "thread"}, {"op": "wait_start", "p": "f"}, {"op": "wait_start", "p": "t1"}, {"op": "wait_start", "p": "a1"}, {"op": "end", "p": "f", "how": how}, {"op": "wait_end"}], "shape": "targeted-" + how})
            # a long shielded trio cleanup with nothing else to wait for
            extra.append({"seed": ctx.seed, "jitter": 0.0, "payloads": {"f": {"flavour": ff}, "t1": {"flavour": "trio", "cleanup": 1, "shielded": 2}, "t2": {"flavour": "trio", "cleanup": 0, "shielded": 2}},
                          "script": [{"op": "adopt", "p": "f"}, {"op": "adopt", "p": "t1"}, {"op": "adopt", "p": "t2"}, {"op": "accept"}, {"op": "wait_running"}, {"op": "wait_start", "p": "f"}, {"op": "wait_start", "p": "t1"}, {"op": "wait_start", "p": "t2"}, {"op": "end", "p": "f", "how": how}, {"op": "wait_end"}],
                          "poll": 0.004, "shape": "targeted-trio-" + how})
    # a payload parked on an awaitable that only its own frame refers to, and a cyclic garbage
    # collection during the run: the payload is still there to be cancelled at termination
    for ff in scen.FLAVS:
        for pf in ("asyncio", "trio"):
            extra.append({"seed": ctx.seed, "jitter": 0.0, "payloads": {"f": {"flavour": ff}, "c1": {"flavour": pf, "cleanup": 2}, "c2": {"flavour": pf, "cleanup": 1}},
                          "script": [{"op": "adopt", "p": "f"}, {"op": "adopt", "p": "c1"}, {"op": "accept"}, {"op": "wait_running"}, {"op": "adopt", "p": "c2", "ctx": "thread"},
                                     {"op": "wait_start", "p": "f"}, {"op": "wait_start", "p": "c1"}, {"op": "wait_start", "p": "c2"}, {"op": "park_payload", "p": "c1"}, {"op": "park_payload", "p": "c2"},
                                     {"op": "gc"}, {"op": "sleep", "ms": 30}, {"op": "gc"}, {"op": "end", "p": "f", "how": "exc:UserExc"}, {"op": "wait_end"}], "shape": "targeted-parked-gc"})
    # a thread payload blocked in a synchronous execute() of a coroutine that does not end on its
    # own, while shutdown() / a failure terminates the runtime: the coroutine payloads are still
    # cancelled and accept() ends
    for xf in ("asyncio", "trio"):
        for trig in ("shutdown", "fail"):
            extra.append({"seed": ctx.seed, "jitter": 0.0, "payloads": {"f": {"flavour": "trio"}, "h1": {"flavour": "threading"}, "a1": {"flavour": "asyncio", "cleanup": 2}, "t1": {"flavour": "trio", "cleanup": 1}, "x1": {"flavour": xf}},
                          "script": [{"op": "adopt", "p": "f"}, {"op": "adopt", "p": "h1"}, {"op": "adopt", "p": "a1"}, {"op": "adopt", "p": "t1"}, {"op": "accept"}, {"op": "wait_running"},
                                     {"op": "wait_start", "p": "f"}, {"op": "wait_start", "p": "h1"}, {"op": "wait_start", "p": "a1"}, {"op": "wait_start", "p": "t1"},
                                     {"op": "execute", "p": "x1", "ctx": "payload:h1", "how": "val:x", "wait": False, "slow": 30.0}, {"op": "sleep", "ms": 100},
                                     ({"op": "shutdown", "ctx": "thread", "wait": True} if trig == "shutdown" else {"op": "end", "p": "f", "how": "exc:UserExc"}), {"op": "wait_end", "timeout": 4.0}],
                          "shape": "targeted-blocked-in-execute-" + trig})
    # a payload raises KeyboardInterrupt while another payload's cancellation adopts one more
    # asyncio payload: that one is cancelled too, before accept() ends
    for ff in ("threading", "asyncio", "trio"):
        extra.append({"seed": ctx.seed, "jitter": 0.0, "payloads": {"f": {"flavour": ff}, "c1": {"flavour": "asyncio", "cleanup": 1, "adopt_in_cleanup": "late"}, "c2": {"flavour": "asyncio", "cleanup": 2}, "late": {"flavour": "asyncio", "cleanup": 1}},
                      "script": [{"op": "adopt", "p": "f"}, {"op": "adopt", "p": "c1"}, {"op": "adopt", "p": "c2"}, {"op": "accept"}, {"op": "wait_running"}, {"op": "wait_start", "p": "f"}, {"op": "wait_start", "p": "c1"}, {"op": "wait_start", "p": "c2"},
                                 {"op": "end", "p": "f", "how": "base:KeyboardInterrupt"}, {"op": "wait_end", "timeout": 4.0}, {"op": "sleep", "ms": 200}], "shape": "targeted-interrupt-payload-adopt-in-cleanup"})
    # the loop outlives the runners (a payload's own job in the default executor is still
    # running when the runtime closes): what is adopted in that phase is not started unsupervised
    for trig in ([{"op": "end", "p": "f", "how": "exc:UserExc"}],):
        for ctxl in ("thread", "payload:h1"):
            extra.append({"seed": ctx.seed, "jitter": 0.0, "timeout": 14, "payloads": {"f": {"flavour": "threading"}, "h1": {"flavour": "threading"}, "a1": {"flavour": "asyncio", "cleanup": 1, "executor_job": 1.2}, "late": {"flavour": "asyncio", "cleanup": 1}},
                          "script": [{"op": "adopt", "p": "a1"}, {"op": "adopt", "p": "f"}, {"op": "adopt", "p": "h1"}, {"op": "accept"}, {"op": "wait_running"}, {"op": "wait_start", "p": "a1"}, {"op": "wait_start", "p": "f"}, {"op": "wait_start", "p": "h1"}]
                          + trig + [{"op": "sleep", "ms": 400}, {"op": "adopt", "p": "late", "ctx": ctxl, "force": True}, {"op": "wait_end", "timeout": 4.0}, {"op": "sleep", "ms": 300}], "shape": "targeted-adopt-while-loop-outlives-runners"})
    # payloads adopted while the runtime is already closing must be cancelled as well
    for trig in ([{"op": "end", "p": "f", "how": "exc:UserExc"}], [{"op": "sigint"}], [{"op": "shutdown", "ctx": "thread", "wait": False}]):
        for late in ("asyncio", "trio"):
            for ctxl in ("thread", "payload:h1"):
                extra.append({"seed": ctx.seed, "jitter": 0.0, "payloads": {"f": {"flavour": "threading"}, "h1": {"flavour": "threading"}, "a1": {"flavour": "asyncio", "cleanup": 1}, "late": {"flavour": late, "cleanup": 1}},
                              "script": [{"op": "adopt", "p": "a1"}, {"op": "adopt", "p": "f"}, {"op": "adopt", "p": "h1"}, {"op": "accept"}, {"op": "wait_running"}, {"op": "wait_start", "p": "a1"}, {"op": "wait_start", "p": "f"}, {"op": "wait_start", "p": "h1"}]
                              + trig + [{"op": "sleep", "ms": 30}, {"op": "adopt", "p": "late", "ctx": ctxl}, {"op": "wait_end"}], "shape": "targeted-late-adopt"})
    for trig in ([{"op": "end", "p": "f", "how": "exc:UserExc"}], [{"op": "sigint"}], [{"op": "shutdown", "ctx": "thread", "wait": False}]):
        # the trigger arrives while a trio payload is inside a blocking execute() into asyncio
        # (the trio thread waits for the loop thread: closing must not make the loop thread wait
        # for the trio thread)
        extra.append({"seed": ctx.seed, "jitter": 0.0, "timeout": 10, "payloads": {"f": {"flavour": "threading"}, "t1": {"flavour": "trio", "cleanup": 1}, "a1": {"flavour": "asyncio", "cleanup": 1}, "x1p": {"flavour": "asyncio"}},
                      "script": [{"op": "adopt", "p": "t1"}, {"op": "adopt", "p": "a1"}, {"op": "adopt", "p": "f"}, {"op": "accept"}, {"op": "wait_running"}, {"op": "wait_start", "p": "t1"}, {"op": "wait_start", "p": "a1"}, {"op": "wait_start", "p": "f"},
                                 {"op": "execute", "p": "x1p", "ctx": "payload:t1", "how": "val:x", "slow": 0.5, "wait": False}] + trig + [{"op": "wait_end"}], "shape": "targeted-trigger-during-execute"})
        # trio payloads adopted from INSIDE the trio thread (another submission path) must be
        # cancelled by an outside trigger like all others
        for late_cleanup in (0, 1):
            extra.append({"seed": ctx.seed, "jitter": 0.0, "payloads": {"f": {"flavour": "threading"}, "t1": {"flavour": "trio", "cleanup": 1}, "late": {"flavour": "trio", "cleanup": late_cleanup, "shielded": late_cleanup}, "late2": {"flavour": "trio"}},
                          "script": [{"op": "adopt", "p": "t1"}, {"op": "adopt", "p": "f"}, {"op": "accept"}, {"op": "wait_running"}, {"op": "wait_start", "p": "t1"}, {"op": "wait_start", "p": "f"},
                                     {"op": "adopt", "p": "late", "ctx": "payload:t1"}, {"op": "wait_start", "p": "late"}, {"op": "adopt", "p": "late2", "ctx": "payload:late"}, {"op": "wait_start", "p": "late2"}, {"op": "step", "p": "late"}]
                          + trig + [{"op": "wait_end"}], "shape": "targeted-nested-trio-adopt-then-trigger"})
    first = True
    for allow, ss in groups.items():
        # (one family per environment switch setting; results accumulate in ctx)
        scen.run_family(ctx, ss, names=NAMES, allow=allow, mc_invariants=["CleanupBeforeEnd", "NoStepAfterEnd", "AtMostOnce"], mc_properties=["ThreadsDoNotBlockEnd"], per_shape=40 if thorough else 5, depth=45, label="c02" + "".join(a[:2] for a in allow), script_hook=add_block, extra_scenarios=(extra if first else ()))
        first = False
    ctx.extra["rule"] = "shapes = termination trigger (failing payload of each flavour: Exception / value / BaseException / KeyboardInterrupt; SIGINT; shutdown()) x population of running coroutine payloads (sleeping / spinning, sync and shielded cleanup 0..2 steps, adopted from threads or other payloads) x blocked thread payload; TLC-simulated behaviours per shape"
    ctx.assumptions = RT_ASSUMPTIONS + ["generated payloads have finite cleanup and do not swallow cancellation"]


def add_block(base, script):
    """a thread payload that blocks for ever must not prevent termination"""
    b = base.get("block")
    if not b:
        return script
    script = [o for o in script if not (o.get("p") == b and o["op"] in ("step", "end", "wait_start"))]
    adopted_at = next((i for i, o in enumerate(script) if o["op"] == "adopt" and o.get("p") == b), None)
    running_at = next((i for i, o in enumerate(script) if o["op"] == "wait_running"), None)
    if running_at is None:
        return script
    if adopted_at is None:
        script.insert(running_at + 1, {"op": "adopt", "p": b, "ctx": "driver"})
        adopted_at = running_at + 1
    at = max(adopted_at, running_at) + 1
    script[at:at] = [{"op": "wait_start", "p": b}, {"op": "block", "p": b}]
    return script
