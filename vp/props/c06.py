"""C06 - Standardiser always keeps the forwarded demand within its limits.

Specification: specs/Standardiser.tla (+ StandardiserTrace.tla).  Half-unit grid.
Pipeline: (1) TLC checks the seven property formulas on the specification for a family of
parameter records, exhaustively over all histories of the bounded domain; (2) TLC emits the
state graph of a smaller family, an edge cover of it is forced onto a real Standardiser;
(3) seeded random histories on a wider domain are run on the real Standardiser; (4) every
recorded trace goes back to TLC, which evaluates every property formula on the observed
states and checks each step against the specification's action.
"""
import itertools
import random

from .. import core, graph, tlc, traceval
from ..fixtures import INF, OFFGRID, RecPool, from_grid, to_grid

Q = 2
UNOBS = 888888
INVARIANTS = [
    "WithinMinMax",
    "WithinWindowUnlessForced",
    "FloorWhenFree",
    "ReadbackLimited",
    "ReadbackUnrounded",
    "ReadbackWithinGranule",
    "IncrementsCompose",
]
DUMMY_CONSTS = " ParamSet = {}\n Values = {}\n Supplies = {}\n InitDemands = {}"


def tla_int(n):
    return "(0 - %d)" % -n if n < 0 else str(n)


def tla_set(xs):
    return "{" + ", ".join(tla_int(x) for x in xs) + "}"


def tla_par(p):
    return "[min |-> %s, max |-> %s, g |-> %d, surplus |-> %s, backlog |-> %s, one |-> %d]" % (
        tla_int(p["min"]),
        tla_int(p["max"]),
        p["g"],
        tla_int(p["surplus"]),
        tla_int(p["backlog"]),
        p.get("one", Q),
    )


def all_params(mins, maxs, gs, surpluses, backlogs, one=Q):
    out = []
    for mn, mx, g, su, ba in itertools.product(mins, maxs, gs, surpluses, backlogs):
        if mn <= mx:
            out.append({"min": mn, "max": mx, "g": g, "surplus": su, "backlog": ba, "one": one})
    return out


def grid_of(case):
    """grid units per 1 of this case: 2 (half units) unless its parameter record says otherwise"""
    return case["par"].get("one", Q)


def mc_module(name, params, values, supplies, inits, emit=False):
    lines = ["---- MODULE %s ----" % name, "EXTENDS StandardiserIncr, Json"]
    lines.append("MCParams == {" + ",\n  ".join(tla_par(p) for p in params) + "}")
    lines.append("MCValues == " + tla_set(values))
    lines.append("MCSupplies == " + tla_set(supplies))
    lines.append("MCInit == " + tla_set(inits))
    if emit:
        lines.append("View == <<par, supply, tdemand, sdemand>>")
        lines.append('Emit == PrintT(<<"EDGE", ToJson([f |-> View, a |-> act\', t |-> View\'])>>)')
        lines.append('EmitInit == act.name # "Init" \\/ PrintT(<<"INIT", ToJson(View)>>)')
    lines.append("====")
    return "\n".join(lines)


def mc_cfg(invariants=True, emit=False):
    cfg = "SPECIFICATION Spec\nCONSTANTS\n ParamSet <- MCParams\n Values <- MCValues\n Supplies <- MCSupplies\n InitDemands <- MCInit\n"
    if invariants:
        cfg += "".join("INVARIANT %s\n" % i for i in INVARIANTS)
    if emit:
        cfg += "VIEW View\nACTION_CONSTRAINT Emit\nCONSTRAINT EmitInit\n"
    return cfg


# ------------------------------------------------------------------ driver (real code)
def gran_value(g, gty, q=Q):
    if g % q == 0 and gty == "int":
        return g // q
    return g / q


def build(case):
    from cobald.decorator.standardiser import Standardiser

    p = case["par"]
    Q = grid_of(case)  # noqa: shadows the default grid
    pool = RecPool(supply=from_grid(case["supply"], Q), demand=from_grid(case["tdemand"], Q), utilisation=0.25, allocation=0.75)
    kw = dict(
        minimum=from_grid(p["min"], Q),
        maximum=from_grid(p["max"], Q),
        granularity=gran_value(p["g"], case.get("gty", "int"), Q),
        surplus=from_grid(p["surplus"], Q),
        backlog=from_grid(p["backlog"], Q),
    )
    if case.get("nan"):
        kw[case["nan"]] = float("nan")   # not a number, hence not a positive number
    std = Standardiser(pool, **kw)
    # another Standardiser with settings of its own lives next to it (built later, over another
    # pool): every instance keeps to ITS limits
    DECOYS.append(Standardiser(RecPool(supply=3.0, demand=1.0), minimum=-7, maximum=7, granularity=3, surplus=1.5, backlog=0.5))
    del DECOYS[:-2]
    return pool, std


DECOYS = []


def safe(fn):
    try:
        return fn()
    except Exception:  # noqa: whatever the code under test raises is an observation
        return None


def private_demand(std, Q=Q):
    try:
        return to_grid(std._demand, Q)
    except AttributeError:
        return UNOBS


def case_of_path(init, acts):
    par, supply, td, sd = init
    ops = []
    for a in acts:
        n = a["name"]
        if n == "Write":
            ops.append({"e": "Write", "v": a["v"], "ty": a["ty"]})
        elif n == "Read":
            ops.append({"e": "Read"})
        else:
            ops.append({"e": n, "v": a["v"]})
    return {"par": par, "supply": supply, "tdemand": td, "ops": ops, "gty": "int", "src": "tlc-edge-cover"}


def random_case(rnd, params, values, supplies, depth):
    par = rnd.choice(params)
    Q = par.get("one", 2)  # noqa: shadows the default grid
    ops = []
    for _ in range(depth):
        c = rnd.random()
        if c < 0.45:
            v = rnd.choice(values)
            ty = rnd.choice(["int", "float"]) if v % Q == 0 else "float"
            ops.append({"e": "Write", "v": v, "ty": ty})
        elif c < 0.70:
            ops.append({"e": "Read"})
        elif c < 0.80:
            # std.demand += n : a read immediately followed by a write of (read + n)
            ops.append({"e": "Read"})
            ops.append({"e": "Incr", "n": rnd.choice([1, 1, 1, 2, 3])})
        elif c < 0.88:
            # (a target may report an infinite supply)
            ops.append({"e": "SupplyChange", "v": rnd.choice(supplies + [INF])})
        elif c < 0.95:
            ops.append({"e": "OutsideDemand", "v": rnd.choice(values)})
        else:
            ops.append({"e": "Fitness", "u": rnd.randrange(0, 5), "a": rnd.randrange(0, 5)})
    return {"par": par, "supply": rnd.choice(supplies + [INF]), "tdemand": rnd.choice(values), "ops": ops, "gty": rnd.choice(["int", "float"]), "src": "random",
            "nan": rnd.choice(["surplus", "backlog", "granularity"]) if rnd.random() < 0.06 else None}


def execute_with_incr(case):
    """Like execute, but resolves {"e":"Incr","n":k} into a Write of (last read + k) so that
    `std.demand += k` histories are exercised; the resolved ops are stored back in the case so
    a replay file is self-contained."""
    # resolve incrementally: we need the value read, so run step by step
    Q = grid_of(case)  # noqa: shadows the default grid
    try:
        pool, std = build(case)
    except Exception as ex:  # noqa: the constructor refuses a combination it is documented to accept
        if case.get("nan"):
            # ... or one it has to refuse: a NaN surplus / backlog / granularity is not positive.
            # (Were it accepted, the history below is judged with the finite value in its place.)
            return case, {"par": dict(case["par"], one=Q), "supply": case["supply"], "tdemand": case["tdemand"], "sdemand": case["tdemand"], "events": []}
        # nothing can be written or read: every write and read of the history is off any grid
        events = []
        for op in case["ops"]:
            if op["e"] == "Write":
                events.append({"e": "Write", "v": op["v"], "ty": op["ty"], "t": OFFGRID, "s": OFFGRID, "raised": "constructor:" + type(ex).__name__})
            elif op["e"] == "Read":
                events.append({"e": "Read", "r": OFFGRID, "s": OFFGRID})
        if not events:
            events.append({"e": "Read", "r": OFFGRID, "s": OFFGRID})
        return case, {"par": dict(case["par"], one=Q), "supply": case["supply"], "tdemand": case["tdemand"], "sdemand": case["tdemand"], "events": events}
    ops, events = [], []
    last_read = None
    for op in case["ops"]:
        if op["e"] == "Incr":
            if last_read is None or last_read == OFFGRID:
                continue
            v = last_read + op["n"] * Q
            if abs(v) > 400:
                continue
            ty = "int" if (v % Q == 0 and isinstance(last_read_py, int)) else "float"
            op = {"e": "Write", "v": v, "ty": ty}
        ops.append(op)
        e = op["e"]
        if e == "Write":
            try:
                std.demand = from_grid(op["v"], Q, as_int=(op["ty"] == "int"))
            except Exception as ex:  # noqa: a write has no documented way to fail
                # nothing was forwarded that could be compared: off the grid, whatever the limits
                events.append({"e": "Write", "v": op["v"], "ty": op["ty"], "t": OFFGRID, "s": OFFGRID, "raised": type(ex).__name__})
                continue
            events.append({"e": "Write", "v": op["v"], "ty": op["ty"], "t": to_grid(pool.demand, Q), "s": private_demand(std, Q)})
        elif e == "Read":
            try:
                last_read_py = std.demand
            except Exception:  # noqa: a read has no documented way to fail: no value on any grid
                last_read_py = None
            last_read = to_grid(last_read_py, Q)
            events.append({"e": "Read", "r": last_read, "s": private_demand(std, Q)})
        elif e == "SupplyChange":
            pool._supply = from_grid(op["v"], Q)
            events.append({"e": "SupplyChange", "v": op["v"]})
        elif e == "OutsideDemand":
            pool._demand = from_grid(op["v"], Q)
            events.append({"e": "OutsideDemand", "v": op["v"]})
        elif e == "Fitness":
            pool._utilisation = op["u"] / 4
            pool._allocation = op["a"] / 4
            events.append(
                {
                    "e": "Fitness",
                    "through": [to_grid(safe(lambda: std.supply), Q), to_grid(safe(lambda: std.utilisation), 4), to_grid(safe(lambda: std.allocation), 4)],
                    "direct": [to_grid(pool.supply, Q), op["u"], op["a"]],
                }
            )
    case = dict(case, ops=ops)
    trace = {"par": dict(case["par"], one=Q), "supply": case["supply"], "tdemand": case["tdemand"], "sdemand": case["tdemand"], "events": events}
    return case, trace


def fingerprint(trace, idx, name):
    ev = trace["events"][idx - 1]
    fp = {"invariant": name}
    # the write the failing state goes back to
    j = idx - 1
    while j >= 0 and trace["events"][j]["e"] != "Write":
        j -= 1
    if j >= 0:
        fp["write_type"] = trace["events"][j]["ty"]
    if ev["e"] == "Fitness":
        fp["event"] = "Fitness"
    return fp


def judge(ctx, cases, traces, verdicts):
    for case, tr, v in zip(cases, traces, verdicts):
        ctx.traces_total += 1
        ctx.events_total += len(tr["events"])
        if v.accepted:
            ctx.traces_accepted += 1
        if v.nc is not None:
            ctx.traces_nc += 1
        for idx, name in v.pv:
            ev = tr["events"][idx - 1] if idx >= 1 else None
            ctx.add_violation(
                name,
                fingerprint(tr, idx, name),
                "Standardiser%s: event %d %s violates %s" % (tr["par"], idx, ev, name),
                case,
                detail={"trace": tr, "event_index": idx},
            )
        if v.nc is not None and not v.pv:
            ctx.add_drift("event %d (%s) of %s is not a %s step of Standardiser.tla" % (v.nc[0], tr["events"][v.nc[0] - 1], tr["par"], v.nc[1]), case)
        # distinct non-trivial: a write whose result was actually limited or floored
        for e in tr["events"]:
            if e["e"] == "Write" and e["t"] != e["v"]:
                ctx.note_distinct([tr["par"], tr["supply"], e["v"], e["ty"], e["t"]])


def run(ctx):
    thorough = ctx.tier == "thorough"
    rnd = random.Random(ctx.seed)
    # ---------------- (1) the design: exhaustive model checking of the specification
    if thorough:
        mc_params = all_params([-INF, 0, 3], [INF, 7, 8], [1, 2, 3, 4], [INF, 1, 4], [INF, 3])
        mc_values, mc_supplies, mc_inits = [-2, 0, 1, 3, 4, 5, 7, 8, 9, 12], [-3, 0, 4, 9], [0, 5]
        # the same on a quarter-unit grid: granularities 1/4, 1/2, 3/4 (below 1), 1 and 3/2
        mc_params += all_params([-INF, 3], [INF, 11], [1, 2, 3, 4, 6], [INF, 5], [INF, 3], one=4)
    else:
        mc_params = all_params([-INF, 3], [INF, 8], [1, 2, 3, 4], [INF, 4], [INF, 3])
        mc_values, mc_supplies, mc_inits = [-2, 1, 3, 4, 5, 8, 9, 12], [-3, 0, 9], [0, 5]
        mc_params += all_params([-INF, 3], [INF], [2, 3, 4], [INF, 5], [INF], one=4)
    res = tlc.run("MCStd", mc_cfg(), module_text=mc_module("MCStd", mc_params, mc_values, mc_supplies, mc_inits), timeout=1500, coverage=False)
    ctx.model_must_hold("Standardiser model", res)
    ctx.add_model_run("Standardiser.tla/%d parameter records" % len(mc_params), res)

    # ---------------- (2) spec -> code: edge cover of the emitted state graph
    em_all = all_params([-INF, 3], [INF, 8], [1, 2, 3, 4], [INF, 1, 4], [INF, 3])
    em_quarter = all_params([-INF, 3], [INF, 11], [2, 3, 4], [INF, 5], [INF, 3], one=4)
    em_params = em_all + em_quarter if thorough else rnd.sample(em_all, 8) + rnd.sample(em_quarter, 3)
    em_values, em_supplies, em_inits = [-2, 1, 3, 4, 5, 8, 9], [-3, 0, 4, 9], [0, 5]
    res = tlc.run(
        "MCStdEmit",
        mc_cfg(invariants=False, emit=True),
        module_text=mc_module("MCStdEmit", em_params, em_values, em_supplies, em_inits, emit=True),
        workers=1,
        timeout=1500,
    )
    tlc.require_ok(res, "Standardiser emission")
    g = graph.from_prints(res.prints)
    paths, left = graph.edge_cover_paths(g, max_len=60, seed=ctx.seed)
    ctx.extra["graph_edges"] = g.nedges
    ctx.extra["graph_nodes"] = len(g.nodes)
    ctx.extra["edges_not_replayed"] = left
    ctx.extra["behaviours_replayed"] = len(paths)
    cases, traces = [], []
    for init, acts, _exp in paths:
        c = case_of_path(init, acts)
        cases.append(c)
        c2, t2 = execute_with_incr(c)
        cases[-1] = c2
        traces.append(t2)

    # ---------------- (3) code -> spec: seeded random histories on a wider domain
    r_params = all_params([-INF, -3, 0, 3, 5], [INF, 5, 7, 8, 20], [1, 2, 3, 4, 5, 6, 10], [INF, 1, 3, 4], [INF, 1, 3, 6])
    r_values = list(range(-12, 31))
    r_supplies = [0, 1, 4, 9, 10, 15, -1, -6]   # (a pool may report any supply, negative too)
    # the same family on a quarter-unit grid: granularities between 0 and 1 with values between
    # their multiples
    q_params = all_params([-INF, -6, 0, 6, 10], [INF, 10, 14, 16, 40], [1, 2, 3, 4, 5, 6, 8, 12], [INF, 2, 6, 8], [INF, 2, 6, 12], one=4)
    q_values = list(range(-24, 61))
    q_supplies = [0, 2, 8, 18, 20, 30, -3, -12]
    n_random = 6000 if thorough else 1200
    depth = 40 if thorough else 25
    for k in range(n_random):
        if k % 3 == 2:
            c, t = execute_with_incr(random_case(rnd, q_params, q_values, q_supplies, depth))
        else:
            c, t = execute_with_incr(random_case(rnd, r_params, r_values, r_supplies, depth))
        cases.append(c)
        traces.append(t)

    # ---------------- (4) every observed trace back to TLC
    verdicts, tstates = traceval.validate("StandardiserTrace", traces, DUMMY_CONSTS, timeout=1500)
    ctx.extra["trace_states"] = tstates
    judge(ctx, cases, traces, verdicts)
    ctx.samples = [traces[0], traces[len(paths)] if len(traces) > len(paths) else traces[-1]]
    ctx.extra["rule"] = (
        "cases = TLC edge-cover paths of the emitted Standardiser state graph + seeded random histories; "
        "a case counts as distinct non-trivial per distinct (parameters, supply, written value, type, forwarded value) "
        "where the forwarded value differs from the written one (a limit or the granularity acted)"
    )
    ctx.assumptions = [
        "values on a half-unit grid (a third of the random histories: quarter-unit grid), |v| <= 15; infinite limits as +-10^6 grid units (DESIGN 7.1)",
        "ReadbackLimited/ReadbackUnrounded only in states with no outside change since the last write (DESIGN 7.9)",
        "FloorWhenFree exempts float writes through the default granularity 1 (documented as 'no limit')",
    ]


def replay(ctx, payload):
    case = payload["case"]
    c, t = execute_with_incr(case)
    verdicts, _ = traceval.validate("StandardiserTrace", [t], DUMMY_CONSTS)
    judge(ctx, [c], [t], verdicts)
    ctx.samples = [t]
    ctx.level = "exploration"
    ctx.extra["rule"] = "replay of one recorded case"
    ctx.distinct.update({"replay-a", "replay-b"})
