"""C13 - the daemon runs its configured pipeline until stopped; failures set exit status.

Specification: specs/Daemon.tla (+ DaemonTrace.tla).  TLC enumerates cases (configuration kind:
YAML with !Tag / __type__ elements and optional logging section, Python module with >>, unknown
extension; every kind of configuration error; pipeline lengths and service flavours; which
service fails; SIGINT once everything runs), checks the exit-status formulas on the model and
emits every case; each is rendered to a configuration file and run as a real
`python -m cobald.daemon` process whose fixture elements write an event file; events, exit
status and the runtime log go back to TLC.
"""
import json
import os
import random
import signal
import subprocess
import sys
import time
from concurrent.futures import ThreadPoolExecutor

from .. import core, tlc, traceval

INVARIANTS = ["ConstructedInRunningLoop", "ExactlyOnce", "AllStartedBeforeStop", "SigintGraceful", "ErrorsExitNonZero", "ExitZeroOnlyAfterSigint", "RunsUntilStopped"]
NAMES = INVARIANTS + ["NeverIdle"]
SVC = {"trio": "DCtrlTrio", "asyncio": "DCtrlAsyncio", "threading": "DCtrlThread"}


def mc_module(name, thorough):
    L = ["---- MODULE %s ----" % name, "EXTENDS Daemon, Json"]
    L.append('Flavs == {"trio", "asyncio", "threading"}')
    L.append('Case(k, e, hf, mid, fl, sg) ==\n'
             '    LET elems == (IF hf = "none" THEN <<>> ELSE <<"head">>) \\o (IF mid = "none" THEN <<>> ELSE <<"mid">>) \\o <<"pool">>\n'
             '        svcs == (IF hf = "none" THEN {} ELSE {"head"}) \\cup (IF mid = "svc" THEN {"mid"} ELSE {})\n'
             '    IN [kind |-> k, err |-> e, svcs |-> svcs, elems |-> elems, fails |-> fl, sigint |-> sg, headflavour |-> hf, mid |-> mid,\n'
             '        badelem |-> IF mid = "none" THEN "pool" ELSE "mid",\n'
             '        cancellable |-> (IF hf \\in {"trio", "asyncio"} THEN {"head"} ELSE {}) \\cup (IF mid = "svc" THEN {"mid"} ELSE {})]')
    L.append(
        'MCInit == \\E k \\in {"yaml", "python", "badext"}, e \\in {"none", "syntax", "dangling", "nopipeline", "ctor", "unknowntag", "pyraises", "emptypipeline", "scalarpipeline", "multidoc"},\n'
        '            hf \\in Flavs \\cup {"none"}, mid \\in {"none", "plain", "svc"}, fl \\in {"-", "head", "mid"}, sg \\in BOOLEAN :\n'
        '    /\\ (k = "badext" => e = "none" /\\ fl = "-")\n'
        '    /\\ (k = "python" => e \\in {"none", "syntax", "pyraises", "ctor"})\n'
        '    /\\ (k = "yaml" => e # "pyraises")\n'
        '    /\\ (e = "multidoc" => k = "yaml")\n'
        '    /\\ (e \\in {"emptypipeline", "scalarpipeline"} => k = "yaml" /\\ hf = "none" /\\ mid = "none")\n'
        '    /\\ (fl = "head" => hf # "none") /\\ (fl = "mid" => mid = "svc")\n'
        '    /\\ (fl # "-" => e = "none" /\\ ~sg)\n'
        '    /\\ (e # "none" \\/ k = "badext" => ~sg)\n'
        '    /\\ (e = "none" /\\ k # "badext" /\\ fl = "-" => sg)\n'
        '    /\\ InitWith(Case(k, e, hf, mid, fl, sg))'
    )
    L.append("MCSpec == MCInit /\\ [][Next]_vars")
    L.append('EmitInit == phase # "boot" \\/ PrintT(<<"INIT", ToJson(cfg)>>)')
    L.append("====")
    return "\n".join(L)


def mc_cfg():
    return "SPECIFICATION MCSpec\n" + "".join("INVARIANT %s\n" % i for i in INVARIANTS) + "CONSTRAINT EmitInit\n"


# ---------------------------------------------------------------- rendering
def render(case, d, seed):
    """-> (config path, expected element names in document order)"""
    rnd = random.Random(seed)
    kind, err = case["kind"], case["err"]
    elems = list(case["elems"])
    fails = case["fails"]
    use_logging = kind == "yaml" and rnd.random() < 0.5
    loglog = os.path.join(d, "section.log")

    def cls(e):
        if e == "pool":
            return "DPool"
        if e == "head":
            return SVC[case["headflavour"]]
        return "DDecoTrio" if case["mid"] == "svc" else "DDeco"

    # any element - pool, decorator, service - may be a falsy object (an empty group, say)
    falsy = {e: rnd.random() < 0.35 for e in elems}

    def kw(e):
        k = {"name": e}
        if fails == e:
            k["fail_after"] = 3 + (seed % 2)  # odd: an Exception, even: a BaseException that is none
        if falsy.get(e):
            k["falsy"] = True
        return k

    if kind in ("yaml", "badext"):
        lines = []
        if use_logging:
            lines += ["logging:", "  version: 1", "  formatters:", "    f:", "      format: '%(levelname)s %(name)s %(message)s'", "  handlers:", "    h:", "      class: logging.FileHandler", "      formatter: f", "      filename: %s" % loglog, "  root:", "    level: INFO", "    handlers: [h]"]
        if err == "dangling":
            lines += ["strangesection:", "  a: 1"]
        if err == "emptypipeline":
            lines.append(rnd.choice(["pipeline: []", "pipeline: {}"]))
        elif err == "scalarpipeline":
            lines.append(rnd.choice(["pipeline: 3", "pipeline: 2.5", "pipeline: true"]))
        elif err != "nopipeline":
            lines.append("pipeline:")
            for i, e in enumerate(elems):
                c = cls(e)
                if err == "ctor" and e == case["badelem"]:
                    c = "DBadCtor"
                if err == "unknowntag" and i == 0:
                    lines.append("  - !NoSuchTagAnywhere {name: %s}" % e)
                    continue
                args = ", ".join("%s: %s" % (k, v) for k, v in kw(e).items())
                if rnd.random() < 0.5 or c == "DBadCtor":
                    lines.append("  - !%s {%s}" % (c, args))
                else:
                    # the factory may be a module attribute or an object nested in classes
                    lines.append("  - {__type__: vp.fx_daemon.%s%s, %s}" % (rnd.choice(["", "", "Site.", "Site.Inner."]), c, args))
        else:
            lines.append("__config_test: {a: 1}")
            if not use_logging and (seed // 10) % 2:
                # ... or a configuration that is altogether empty (comments, a bare document
                # marker, an empty mapping): there is no pipeline in it either
                lines = [rnd.choice(["# nothing configured yet", "---", "{}", "---\n# nothing"])]
        if err == "syntax":
            lines.append("  - [unbalanced")
        if err == "multidoc":
            # a second document: a configuration is ONE document
            lines += ["---", rnd.choice(["pipeline: []", "extra: 1", "- 1"])]
        text = "\n".join(lines) + "\n"
        ext = ".yaml" if kind == "yaml" else rnd.choice([".json", ".txt", ".cfg", ""])
    else:
        lines = ["from vp.fx_daemon import *"]
        if rnd.random() < 0.6:
            # a configuration module may refer to itself while it is being executed
            lines = ["from __future__ import annotations", "import sys, dataclasses", "from vp.fx_daemon import *", "", "@dataclasses.dataclass", "class Settings:", "    rate: int = 1", "    names: list[str] = dataclasses.field(default_factory=list)", "", "this_module = sys.modules[__name__]", "settings = Settings()"]
        if err == "pyraises":
            lines.append("raise LookupError('configuration module refuses to load')")
        parts = []
        for e in elems:
            c = "DBadCtor" if (err == "ctor" and e == case["badelem"]) else cls(e)
            a = ", ".join("%s=%r" % (k, v) for k, v in kw(e).items())
            parts.append("%s(%s)" % (c, a) if e == "pool" else "%s.s(%s)" % (c, a))
        lines.append("pipeline = " + " >> ".join(parts))
        if err == "syntax":
            lines.append("def broken(:")
        text = "\n".join(lines) + "\n"
        ext = ".py"
    path = os.path.join(d, "config" + ext)
    with open(path, "w") as f:
        f.write(text)
    return path, text, (loglog if use_logging else None)


def run_case(item):
    case, seed, root = item
    d = os.path.join(root, "case%d" % seed)
    os.makedirs(d, exist_ok=True)
    cfgpath, text, sectionlog = render(case, d, seed)
    evfile = os.path.join(d, "events.txt")
    logfile = os.path.join(d, "daemon.log")
    env = core.child_env({"VP_EVENT_FILE": evfile, "PYTHONPATH": os.pathsep.join([os.path.join(core.repo_root(), "src"), core.ROOT, os.path.join(core.ROOT, "fixture_dist")])})
    if (seed // 4) % 2 == 0:
        # asyncio services park on a private awaitable after a few beats, the others collect
        # garbage at every beat: a parked service is still kept - and cancelled at the end
        env["VP_FX_PARK"] = "1"
    env.pop("COBALD_VERIF", None)
    # the runtime log goes to a file or - every third case - to the daemon's standard output
    # (the interpreter's own traceback of an uncaught error goes to standard ERROR: it is kept
    # apart and does not count as "an error on the runtime log")
    to_stdout = seed % 3 == 1
    to_stderr = seed % 6 == 5   # the default target: shared with the interpreter's own messages
    errfile = os.path.join(d, "stderr.txt")
    outfile = os.path.join(d, "stdout.txt")
    proc = subprocess.Popen([sys.executable, "-m", "cobald.daemon", cfgpath, "--log-target", "stdout" if to_stdout else "stderr" if to_stderr else logfile, "--log-level", "DEBUG"], env=env, stdout=open(outfile, "wb"), stderr=open(errfile, "wb"), preexec_fn=lambda: signal.signal(signal.SIGINT, signal.SIG_DFL), cwd=d)
    svcs = set(case["svcs"])

    def read_events():
        try:
            with open(evfile) as f:
                return [l.split() for l in f.read().splitlines() if l.strip()]
        except FileNotFoundError:
            return []

    deadline = time.time() + 10.0
    sigint_at = None
    still = False
    while True:
        rc = proc.poll()
        if rc is not None:
            break
        evs = read_events()
        beats = {}
        for w in evs:
            if w[0] == "beat":
                beats[w[1]] = int(w[2])
        if case["sigint"] and sigint_at is None and svcs and all(beats.get(s, 0) >= 2 for s in svcs):
            if "VP_FX_PARK" in env:
                time.sleep(0.25)   # (parked services have been parked for a while, garbage was collected)
                if proc.poll() is not None:
                    continue
                evs = read_events()
            sigint_at = len(evs)
            proc.send_signal(signal.SIGINT)
        if case["sigint"] and sigint_at is None and not svcs and len([w for w in evs if w[0] == "constructed"]) >= len(case["elems"]) and time.time() > deadline - 9.0:
            sigint_at = len(evs)
            proc.send_signal(signal.SIGINT)
        if time.time() > deadline:
            still = True
            proc.kill()
            proc.wait()
            rc = None
            break
        time.sleep(0.01)
    try:
        out = open(outfile, errors="replace").read()
    except FileNotFoundError:
        out = ""
    evs = read_events()
    try:
        log = open(logfile).read()
    except FileNotFoundError:
        log = ""
    if to_stdout:
        log += out
    try:
        err = open(errfile, errors="replace").read()
    except FileNotFoundError:
        err = ""
    out += err
    if to_stderr:
        # what the logging system wrote there is recognised by its record prefix
        # ("2026-10-03 12:00:00 (pid) message"); the interpreter's own traceback has none
        import re
        log += "\n".join(l for l in err.splitlines() if re.match(r"^\d{4}-\d\d-\d\d \d\d:\d\d:\d\d\s+\(\d+\) ", l))
    if sectionlog:
        try:
            log += open(sectionlog).read()
        except FileNotFoundError:
            pass
    # the runtime log: what the logging system wrote (not the interpreter's own stderr)
    errlogged = any(("ERROR" in l or "CRITICAL" in l or "Traceback" in l or "runner terminated" in l or "runner aborted" in l) for l in log.splitlines())
    log += "\n--- stderr ---\n" + out
    events = []
    for i, w in enumerate(evs):
        if sigint_at is not None and i == sigint_at:
            events.append({"e": "Sigint"})
        if w[0] == "constructed":
            events.append({"e": "Constructed", "n": w[1], "inloop": w[2] == "1"})
        elif w[0] == "run":
            events.append({"e": "Run", "n": w[1]})
        elif w[0] == "beat":
            events.append({"e": "Beat", "n": w[1]})
        elif w[0] == "cancelled":
            events.append({"e": "Cancelled", "n": w[1]})
    if sigint_at is not None and sigint_at >= len(evs):
        events.append({"e": "Sigint"})
    if still:
        events.append({"e": "StillRunning"})
    else:
        events.append({"e": "Exit", "code": rc if 0 <= rc < 1000 else 255, "errlogged": bool(errlogged)})
    return {"cfg": case, "events": events, "config_text": text, "log_tail": log[-600:], "seed": seed}


def judge(ctx, traces, verdicts):
    for tr, v in zip(traces, verdicts):
        ctx.traces_total += 1
        ctx.events_total += len(tr["events"])
        if v.accepted:
            ctx.traces_accepted += 1
        if v.nc is not None:
            ctx.traces_nc += 1
        case = {"cfg": tr["cfg"], "seed": tr["seed"]}
        for name in sorted({n for _, n in v.pv if n in NAMES}):
            c = tr["cfg"]
            fp = {"invariant": name, "kind": c["kind"], "err": c["err"], "fails": c["fails"] != "-", "sigint": bool(c["sigint"])}
            if c["err"] == "emptypipeline":
                fp["config"] = tr["config_text"].strip().splitlines()[-1]
            ctx.add_violation(name, fp, "configuration\n%s-> %s violates %s (log: %s)" % (tr["config_text"], json.dumps(tr["events"][-8:]), name, tr["log_tail"][-300:].replace("\n", " | ")), case, detail={"events": tr["events"]})
        if v.nc is not None and not v.pv:
            ctx.add_drift("daemon run for %s gave %s - event %s is not a step of Daemon.tla" % (json.dumps(tr["config_text"]), json.dumps(tr["events"]), list(v.nc)), case)
        ctx.note_distinct([tr["cfg"]])


def run(ctx):
    thorough = ctx.tier == "thorough"
    rnd = random.Random(ctx.seed)
    res = tlc.run("MCDaemon", mc_cfg(), module_text=mc_module("MCDaemon", thorough), workers=1, timeout=3000)
    ctx.model_must_hold("Daemon model", res)
    ctx.add_model_run("Daemon.tla/all enumerated cases", res)
    cases = []
    for p in res.prints:
        if p[0] == "INIT":
            c = json.loads(p[1])
            c["svcs"] = sorted(c["svcs"])
            c["cancellable"] = sorted(c["cancellable"])
            cases.append(c)
    ctx.extra["cases_emitted"] = len(cases)
    budget = len(cases) * 3 if thorough else len(cases)
    picked = cases if len(cases) <= budget else rnd.sample(cases, budget)
    if thorough:
        picked = cases * 3
    root = tlc.subdir("c13")
    items = [(c, ctx.seed * 100000 + i, root) for i, c in enumerate(picked)]
    with ThreadPoolExecutor(max_workers=16) as ex:
        traces = list(ex.map(run_case, items))
    ctx.extra["behaviours_replayed"] = len(traces)
    if os.environ.get("VP_C13_DUMP"):
        json.dump(traces, open(os.environ["VP_C13_DUMP"], "w"))
    verdicts, tstates = traceval.validate("DaemonTrace", [{"cfg": t["cfg"], "events": t["events"]} for t in traces], "", timeout=3000)
    ctx.extra["trace_states"] = tstates
    judge(ctx, traces, verdicts)
    ctx.samples = [{"config": traces[0]["config_text"], "events": traces[0]["events"]}, {"config": traces[-1]["config_text"], "events": traces[-1]["events"]}]
    ctx.extra["rule"] = "one case = configuration kind (YAML with !Tag/__type__ elements and optional logging section, Python module with >>, unknown extension) x configuration error kind x head service flavour x middle element (none / plain / service) x failing service x SIGINT, enumerated by TLC; each run as a real daemon process"
    ctx.assumptions = ["one machine, real time: 'keeps running until stopped' is observed for a bounded run (every service has beaten at least twice before SIGINT; a process still up 10 s after start without having been asked to stop counts as running, one that should have failed counts as idle)", "fixture pipeline elements write the event file; 'an error on the runtime log' = an ERROR/CRITICAL/traceback/'runner aborted' line written by the logging system to the --log-target file or to the logging section's handler (the interpreter's own traceback on stderr does not count)"]


def replay(ctx, payload):
    c = payload["case"]
    root = tlc.subdir("c13")
    t = run_case((c["cfg"], c["seed"], root))
    verdicts, _ = traceval.validate("DaemonTrace", [{"cfg": t["cfg"], "events": t["events"]}], "")
    judge(ctx, [t], verdicts)
    ctx.samples = [t["events"]]
    ctx.level = "exploration"
    ctx.distinct.update({"replay-a", "replay-b"})
