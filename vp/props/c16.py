"""C16 - decorators are transparent except for what they are meant to change.

Specification: specs/Decorators.tla (+ DecoratorsTrace.tla).  TLC checks the formulas over all
stacks of depth 0..3 (thorough 4) of {PoolDecorator, Logger, Standardiser, Buffer} and all
operation histories to a bounded depth, generates behaviours by simulation which are replayed
on real stacks with capturing log handlers, and validates the recorded traces.
"""
import itertools
import json
import logging
import random
import warnings

from .. import core, tlc, traceval
from ..fixtures import RecPool, to_grid

KINDS = ["plain", "logger", "std", "buffer"]
INVARIANTS = ["FitnessTransparent", "DemandTransparent", "OneRecordPerWrite", "NoStrayRecords", "RecordCarriesValue"]
DUMMY = " Values = {}\n Fits = {}"
LEVELS = [logging.DEBUG, logging.INFO, logging.WARNING, 5, 1]  # (sub-DEBUG numeric levels are legal: a TRACE level, say)
KNOWN = ["value", "demand", "supply", "utilisation", "allocation", "consumption", "target"]
UNKNOWN = ["unknown1", "Value", "demand2", "targets", "dummy field", "old-demand", "target.demand", "", "supply "]


def stacks(maxdepth):
    out = []
    for n in range(maxdepth + 1):
        out += [list(s) for s in itertools.product(KINDS, repeat=n)]
    return out


def mc_module(name, stks, dom, sim_depth=None):
    L = ["---- MODULE %s ----" % name, "EXTENDS Decorators, Json"]
    L.append("MCValues == {%s}" % ", ".join(str(v) for v in dom["Values"]))
    L.append("MCFits == {%s}" % ", ".join(str(v) for v in dom["Fits"]))
    L.append("MCStacks == {" + ", ".join("<<" + ", ".join('"%s"' % k for k in s) + ">>" for s in stks) + "}")
    L.append("MCInit == \\E s \\in MCStacks : \\E d \\in MCValues : InitWith(s, [supply |-> 2, demand |-> d, util |-> 2, alloc |-> 4])")
    L.append("MCSpec == MCInit /\\ [][Next]_vars")
    L.append('LevelBound == TLCGet("level") <= %d' % dom["depth"])
    if sim_depth:
        L.append("VARIABLES hist, init0")
        L.append("SimSpec == (MCInit /\\ hist = <<>> /\\ init0 = [stack |-> stack, pool |-> pool]) /\\ [][Next /\\ hist' = Append(hist, act') /\\ UNCHANGED init0]_<<vars, hist, init0>>")
        L.append('EmitPath == Len(hist) < %d \\/ (PrintT(<<"PATH", ToJson([init |-> init0, hist |-> hist])>>) /\\ FALSE)' % sim_depth)
    L.append("====")
    return "\n".join(L)


def mc_cfg(sim=False):
    cfg = "SPECIFICATION %s\nCONSTANTS\n Values <- MCValues\n Fits <- MCFits\n" % ("SimSpec" if sim else "MCSpec")
    if sim:
        cfg += "CONSTRAINT EmitPath\n"
    else:
        cfg += "CONSTRAINT LevelBound\n" + "".join("INVARIANT %s\n" % i for i in INVARIANTS)
    return cfg


# ------------------------------------------------------------------ driver
class Capture(logging.Handler):
    def __init__(self, sink, layer, obj_ref):
        super().__init__(level=0)
        self.sink, self.layer, self.obj_ref = sink, layer, obj_ref

    def emit(self, record):
        lg = self.obj_ref[0]
        self.sink.append({"record": record, "layer": self.layer, "emitd": lg.target.demand if lg is not None else None})


_counter = itertools.count()


HUNG = [0]


def execute(case):
    """what the stack of the case does; a stack that cannot even be built (a constructor of the
    code under test raises on a legal stack) is a stack through which nothing is written or read"""
    import signal

    def hung(signum, frame):
        HUNG[0] += 1
        raise TimeoutError("a read or write through the stack did not return in time")

    # (the histories are run in this very thread: a stack that blocks for ever - a lock taken
    #  twice, say - would hang the check; a blocked lock acquisition can be interrupted)
    armed = False
    try:
        old_handler = signal.signal(signal.SIGALRM, hung)
        # (generous at first; once stacks have been seen to block, the rest is not waited for long)
        t_ = 3.0 if HUNG[0] < 3 else 0.05
        signal.setitimer(signal.ITIMER_REAL, t_, t_)   # (again and again: every blocking call of the history)
        armed = True
    except ValueError:  # not the main thread
        pass
    try:
        return execute_(case)
    except Exception as ex:  # noqa: the exception is the observation
        n = len(case["stack"])
        events = []
        for op in case["ops"]:
            if op["e"] == "Write":
                events.append({"e": "Write", "v": op["v"], "pd": 777777, "nw": 0, "L": [{"sd": 0, "pend": 0}] * n, "recs": []})
            elif op["e"] == "Read":
                events.append({"e": "Read", "d": 777777, "s": 777777, "u": 777777, "a": 777777, "L": [{"sd": 0, "pend": 0}] * n})
        if not events:
            events.append({"e": "Read", "d": 777777, "s": 777777, "u": 777777, "a": 777777, "L": [{"sd": 0, "pend": 0}] * n})
        return {"stack": case["stack"], "pool": case["pool"], "seed": case.get("seed", 0), "events": events, "raised": type(ex).__name__}
    finally:
        if armed:
            signal.setitimer(signal.ITIMER_REAL, 0)
            signal.signal(signal.SIGALRM, old_handler)


def execute_(case):
    """case: {stack:[kinds], pool:{supply,demand,util,alloc}, seed, ops:[{e:Write,v}|{e:Read}|{e:PoolChange,attr,v}|{e:NewLogger,fields}]}"""
    from cobald.interfaces import PoolDecorator
    from cobald.decorator.logger import Logger
    from cobald.decorator.standardiser import Standardiser
    from cobald.decorator.buffer import Buffer

    rnd = random.Random(case.get("seed", 0))
    p0 = case["pool"]
    class BrkPool(RecPool):
        """a pool that, once broken, cannot report its supply and utilisation any more (its
        backend is gone, say): reading them raises"""
        broken = False

        @property
        def supply(self):
            if self.broken:
                raise ZeroDivisionError("no backend")
            return self._supply

        @property
        def utilisation(self):
            if self.broken:
                raise ZeroDivisionError("no backend")
            return self._utilisation

    pool = BrkPool(supply=p0["supply"], demand=p0["demand"], utilisation=p0["util"] / 4, allocation=p0["alloc"] / 4)
    stack = case["stack"]
    objs = [None] * len(stack)
    sink = []
    uid = next(_counter)
    target = pool
    cleanup = []
    meta = {}
    for i in reversed(range(len(stack))):
        k = stack[i]
        if k == "plain" and rnd.random() < 0.3:
            # a Logger whose python logger is silenced (threshold above its level) is a plain,
            # transparent decorator: no record, the write passes all the same
            sname = "vp.c16.run%d.silent%d" % (uid, i + 1)
            spy = logging.getLogger(sname)
            spy.setLevel(logging.CRITICAL + 10)
            spy.propagate = False
            sh = Capture(sink, i + 1, [None])
            spy.addHandler(sh)
            cleanup.append((spy, sh))
            target = Logger(target, name=sname, level=rnd.choice([logging.DEBUG, logging.INFO, logging.ERROR]))
        elif k == "plain":
            target = PoolDecorator(target)
        elif k == "std":
            target = Standardiser(target)
        elif k == "buffer":
            w = rnd.choice([1, 10.0])
            target = Buffer(target, window=w) if w != 10.0 else Buffer(target)  # 10.0 is the documented default
        else:
            name = "vp.c16.run%d.layer%d" % (uid, i + 1)
            level = rnd.choice(LEVELS)
            fields = rnd.sample(KNOWN[:5], rnd.randrange(0, 6))
            msg = rnd.choice([None, " ".join("%%(%s)s" % f for f in fields) or "static text"])
            pylog = logging.getLogger(name)
            pylog.setLevel(1)
            pylog.propagate = False
            ref = [None]
            h = Capture(sink, i + 1, ref)
            pylog.addHandler(h)
            cleanup.append((pylog, h))
            target = Logger(target, name=name, level=level) if msg is None else Logger(target, name=name, message=msg, level=level)
            ref[0] = target
            meta[i + 1] = (name, level)
        objs[i] = target
    top = target

    def layers():
        out = []
        for i, k in enumerate(stack):
            o = objs[i]
            sd = to_grid(getattr(o, "_demand", 0), 1) if k == "std" else 0
            try:
                pend = to_grid(o.demand, 1) if k == "buffer" else 0
            except Exception:  # noqa
                pend = 777777
            out.append({"sd": sd, "pend": pend})
        return out

    def st4(o):
        def rd(attr, q):
            try:
                return to_grid(getattr(o, attr), q)
            except Exception:  # noqa: a read that raises gives no value on any grid
                return 777777
        return [rd("demand", 1), rd("supply", 1), rd("utilisation", 4), rd("allocation", 4)]

    events = []
    try:
        for op in case["ops"]:
            e = op["e"]
            if e == "Break":
                # from here on the pool cannot report its state (no event: the rest of the history
                # is only looked at for records that claim to carry a state nobody could read)
                pool.broken = True
                continue
            if pool.broken and e != "Write":
                continue
            if e == "Write":
                # (only loggers the write will reach: the read has the side effects the Logger's own read has)
                pre = {i + 1: st4(objs[i].target) for i, k in enumerate(stack) if k == "logger" and "buffer" not in stack[:i]}
                if pool.broken:
                    pre = {i: [888888 if x == 777777 else x for x in v] for i, v in pre.items()}
                del sink[:]
                n0 = len(pool.writes)
                try:
                    top.demand = op["v"]
                except Exception:  # noqa: a write has no documented way to fail; what reached the pool is what counts
                    pass
                recs = []
                for s in sink:
                    r = s["record"]
                    a = r.args if isinstance(r.args, dict) or hasattr(r.args, "__getitem__") else {}
                    def g(key, q):
                        try:
                            return to_grid(a[key], q)
                        except Exception:
                            return 777777
                    name, level = meta[s["layer"]]
                    recs.append({"layer": s["layer"], "value": g("value", 1), "d": g("demand", 1), "s": g("supply", 1), "u": g("utilisation", 4), "a": g("allocation", 4), "c": g("consumption", 4),
                                 "pre": pre.get(s["layer"], [777777] * 4), "emitd": to_grid(s["emitd"], 1), "late": [g("value", 1), g("demand", 1), g("supply", 1), g("utilisation", 4), g("allocation", 4)],
                                 "nameok": r.name == name, "levelok": r.levelno == level})
                    # "late" is read now, i.e. after the write completed; "d/s/u/a" must have been fixed at emission
                if pool.broken and not recs:
                    continue   # the write failed or passed without any record: nothing is claimed
                events.append({"e": "Write", "v": op["v"], "pd": to_grid(pool._demand, 1), "nw": len(pool.writes) - n0, "L": layers(), "recs": recs})
            elif e == "Read":
                d, s, u, a = st4(top)
                events.append({"e": "Read", "d": d, "s": s, "u": u, "a": a, "L": layers()})
            elif e == "PoolChange":
                if op["attr"] == "demand":
                    pool._demand = op["v"]
                elif op["attr"] == "supply":
                    pool._supply = op["v"]
                elif op["attr"] == "util":
                    pool._utilisation = op["v"] / 4
                else:
                    pool._allocation = op["v"] / 4
                events.append(dict(op))
            elif e == "Rename":
                i = op["layer"] - 1
                if i < len(stack) and stack[i] == "logger":
                    newname = "vp.c16.run%d.layer%d.renamed%d" % (uid, i + 1, len(events))
                    pylog = logging.getLogger(newname)
                    pylog.setLevel(1)
                    pylog.propagate = False
                    h = Capture(sink, i + 1, [objs[i]])
                    pylog.addHandler(h)
                    cleanup.append((pylog, h))
                    objs[i].name = newname
                    meta[i + 1] = (newname, meta[i + 1][1])
                    events.append({"e": "Rename", "layer": i + 1})
            elif e == "NewLogger":
                msg = " ".join("%%(%s)s" % f for f in op["fields"]) or "no fields"
                if op.get("literal"):
                    msg += " 100%% of %%(x)s"  # an escaped percent sign is plain text, not a field
                with warnings.catch_warnings():
                    warnings.simplefilter("ignore")
                    try:
                        Logger(pool, name="vp.c16.tmpl", message=msg)
                        outcome = "ok"
                    except RuntimeError:
                        outcome = "rejected"
                    except Exception as ex:  # noqa
                        outcome = "raised-" + type(ex).__name__
                events.append({"e": "NewLogger", "fields": op["fields"], "outcome": outcome})
    finally:
        for pylog, h in cleanup:
            pylog.removeHandler(h)
    return {"stack": stack, "pool": p0, "seed": case.get("seed", 0), "events": events}


def fix_records(trace):
    return trace


def case_of_path(p, seed):
    ops = []
    for a in p["hist"]:
        if a["name"] == "Write":
            ops.append({"e": "Write", "v": a["v"]})
        elif a["name"] == "Read":
            ops.append({"e": "Read"})
        elif a["name"] == "PoolChange":
            ops.append({"e": "PoolChange", "attr": a["attr"], "v": a["v"]})
        elif a["name"] == "Rename":
            ops.append({"e": "Rename", "layer": a["v"]})
    return {"stack": p["init"]["stack"], "pool": p["init"]["pool"], "seed": seed, "ops": ops, "src": "tlc-simulate"}


def random_case(rnd):
    stack = [rnd.choice(KINDS + ["logger", "plain"]) for _ in range(rnd.randrange(0, 5))]
    ops = []
    for _ in range(rnd.randrange(3, 16)):
        c = rnd.random()
        if c < 0.45:
            ops.append({"e": "Write", "v": rnd.choice([0, 1, 2, 3, 5, 8, 8, 13])})
        elif c < 0.65:
            ops.append({"e": "Read"})
        elif c < 0.72 and "logger" in stack:
            ops.append({"e": "Rename", "layer": rnd.choice([i + 1 for i, k in enumerate(stack) if k == "logger"])})
        elif c < 0.9:
            attr = rnd.choice(["demand", "supply", "util", "alloc"])
            ops.append({"e": "PoolChange", "attr": attr, "v": rnd.choice([0, 1, 2, 3, 5, 8]) if attr in ("demand", "supply") else rnd.randrange(0, 5)})
        else:
            fields = rnd.sample(KNOWN, rnd.randrange(0, 4)) + (rnd.sample(UNKNOWN, rnd.randrange(1, 3)) if rnd.random() < 0.5 else [])
            rnd.shuffle(fields)
            ops.append({"e": "NewLogger", "fields": fields, "literal": rnd.random() < 0.3})
    if rnd.random() < 0.2:
        ops += [{"e": "Break"}] + [{"e": "Write", "v": rnd.choice([0, 1, 2, 3, 5, 8])} for _ in range(rnd.randrange(1, 4))]
    return {"stack": stack, "pool": {"supply": rnd.choice([0, 2, 5]), "demand": rnd.choice([0, 1, 3, 8]), "util": rnd.randrange(0, 5), "alloc": rnd.randrange(0, 5)}, "seed": rnd.randrange(1 << 30), "ops": ops, "src": "random"}


def judge(ctx, cases, traces, verdicts):
    for case, tr, v in zip(cases, traces, verdicts):
        ctx.traces_total += 1
        ctx.events_total += len(tr["events"])
        if v.accepted:
            ctx.traces_accepted += 1
        if v.nc is not None:
            ctx.traces_nc += 1
        for idx, name in v.pv:
            ctx.add_violation(name, {"invariant": name}, "stack %s over pool %s: event %d %s violates %s (history %s)" % (tr["stack"], tr["pool"], idx, json.dumps(tr["events"][idx - 1])[:500], name, json.dumps([{k: e[k] for k in e if k in ("e", "v", "attr")} for e in tr["events"][:idx - 1]])[-300:]), case, detail={"trace": tr, "event_index": idx})
        if v.nc is not None and not v.pv:
            ctx.add_drift("event %d %s of stack %s is not a step of Decorators.tla" % (v.nc[0], json.dumps(tr["events"][v.nc[0] - 1])[:300], tr["stack"]), case)
        for e in tr["events"]:
            if e["e"] == "Write" and tr["stack"]:
                ctx.note_distinct([tr["stack"], e["v"], e["pd"], e["nw"], len(e["recs"])])


def run(ctx):
    thorough = ctx.tier == "thorough"
    rnd = random.Random(ctx.seed)
    stks = stacks(4 if thorough else 3)
    dom = {"Values": [0, 1, 3], "Fits": [0, 4], "depth": 5 if thorough else 4}
    res = tlc.run("MCDec", mc_cfg(), module_text=mc_module("MCDec", stks, dom), timeout=3000)
    ctx.model_must_hold("Decorators model", res)
    ctx.add_model_run("Decorators.tla/%d stacks depth<=%d, histories to depth %d" % (len(stks), 4 if thorough else 3, dom["depth"]), res, exhaustive=False, note="all histories to the stated depth")
    sdom = {"Values": [0, 1, 2, 3, 5, 8], "Fits": [0, 1, 2, 4], "depth": 0}
    sdepth = 12
    paths, sres = tlc.simulate_paths("MCDecSim", mc_cfg(sim=True), mc_module("MCDecSim", stacks(3), sdom, sim_depth=sdepth), num=2000 if thorough else 300, depth=sdepth, seed=ctx.seed)
    budget = 12000 if thorough else 1500
    if len(paths) > budget:
        paths = rnd.sample(paths, budget)
    cases = [case_of_path(p, ctx.seed + i) for i, p in enumerate(paths)]
    ctx.extra["behaviours_replayed"] = len(cases)
    for _ in range(8000 if thorough else 1500):
        cases.append(random_case(rnd))
    traces = [execute(c) for c in cases]
    verdicts, tstates = traceval.validate("DecoratorsTrace", traces, DUMMY, timeout=3000)
    ctx.extra["trace_states"] = tstates
    judge(ctx, cases, traces, verdicts)
    ctx.samples = [traces[0], traces[-1]]
    ctx.extra["rule"] = "cases = behaviours generated by TLC -simulate over all stacks of depth <= 3 + random stacks (depth <= 4) and histories incl. Logger constructions with known/unknown template fields; distinct non-trivial = distinct (stack, written value, pool demand after, pool writes, records) for non-empty stacks"
    ctx.assumptions = ["Standardiser layers use default parameters (C06 covers its limits); Buffer layers are not running (C09 covers flushing)", "integer demands, fitness in quarters", "Logger names are unique per run; python loggers are set to level 1 with a capturing handler"]


def replay(ctx, payload):
    c = payload["case"]
    t = execute(c)
    verdicts, _ = traceval.validate("DecoratorsTrace", [t], DUMMY)
    judge(ctx, [c], [t], verdicts)
    ctx.samples = [t]
    ctx.level = "exploration"
    ctx.distinct.update({"replay-a", "replay-b"})
