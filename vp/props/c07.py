"""C07 - composite pools conserve demand and aggregate their children faithfully.

Specification: specs/Composite.tla (+ CompositeTrace.tla).  Shares are exact integers after
scaling by L = lcm(1..16); observed floats are scaled by the driver and must be within 1e-9
(relative) of an integer - that is "up to floating-point rounding", applied once, when logging.
TLC checks the formulas on the model exhaustively (bounded depth), generates behaviours
(-simulate with a history variable) that are replayed on real composites, and validates every
recorded trace (TLC-generated and random ones).
"""
import json
import random

from .. import core, tlc, traceval
from ..fixtures import RecPool, OFFGRID

L = 720720
KINDS = ["uniform", "wsupply", "wutil", "walloc"]
INVARIANTS = ["Conservation", "Proportional", "ShareBounds", "ReadsBackD", "SupplyIsSum", "FitnessConvex", "Fallbacks"]
DUMMY = ' L = 720720\n Kinds = {}\n MaxK = 4\n DemandVals = {}\n SupplyVals = {}\n FitVals = {}\n Tol = 1'


def mc_module(name, dom, sim_depth=None):
    Ls = ["---- MODULE %s ----" % name, "EXTENDS Composite, Json"]
    Ls.append("MCKinds == {%s}" % ", ".join('"%s"' % k for k in dom["kinds"]))
    for k in ("DemandVals", "SupplyVals", "FitVals"):
        Ls.append("MC%s == {%s}" % (k, ", ".join(str(x) for x in dom[k])))
    Ls.append("Depth == %d" % dom["depth"])
    Ls.append('LevelBound == TLCGet("level") <= Depth')
    if sim_depth:
        Ls.append("VARIABLE hist")
        Ls.append("SimSpec == (Init /\\ hist = <<>>) /\\ [][Next /\\ hist' = Append(hist, act')]_<<vars, hist>>")
        Ls.append('EmitPath == Len(hist) < %d \\/ (PrintT(<<"PATH", ToJson([kind |-> kind, hist |-> hist])>>) /\\ FALSE)' % sim_depth)
    Ls.append("====")
    return "\n".join(Ls)


def mc_cfg(dom, sim=False):
    cfg = ("SPECIFICATION %s\nCONSTANTS\n L = %d\n Kinds <- MCKinds\n MaxK = %d\n DemandVals <- MCDemandVals\n SupplyVals <- MCSupplyVals\n FitVals <- MCFitVals\n Tol = 0\n" % ("SimSpec" if sim else "Spec", L, dom["maxk"]))
    if sim:
        cfg += "CONSTRAINT EmitPath\n"
    else:
        cfg += "CONSTRAINT LevelBound\n" + "".join("INVARIANT %s\n" % i for i in INVARIANTS)
    return cfg


# ---------------------------------------------------------------- driver
def scaled(x, factor):
    """float -> integer in units of 1/factor, if x*factor is an integer up to 1e-9 relative"""
    if isinstance(x, bool) or not isinstance(x, (int, float)) or x != x or x in (float("inf"), float("-inf")):
        return OFFGRID
    y = x * factor
    r = round(y)
    # (nothing a composite is asked for or reports in these cases exceeds 100: a larger value is
    #  wrong whatever it is - and must not make TLC's 32-bit arithmetic overflow)
    if abs(y - r) > 1e-9 * max(1.0, abs(y)) or abs(r) > 101 * factor:
        return OFFGRID
    return int(r)


def execute(case):
    """case: {kind, ops:[{e:Write,D}|{e:Read}|{e:SetChild,i,attr,v}|{e:AddChild,c:{s,u,a}}|{e:Remove,i}]}"""
    from cobald.composite.uniform import UniformComposite
    from cobald.composite.weighted import WeightedComposite

    kind = case["kind"]
    comp = UniformComposite() if kind == "uniform" else WeightedComposite(weight={"wsupply": "supply", "wutil": "utilisation", "walloc": "allocation"}[kind])
    mine = []  # the children THIS case gave to the composite, in order
    events = []
    n = 0
    # magnitudes: all supplies of a case are multiplied by a power of two (exact in binary
    # floating point, so shares and means are bit-for-bit those of the unscaled case) - tiny
    # and huge supplies are legal inputs
    ks = case.get("supply_scale", 1)
    # ... and so are all demands of a case (tiny demands and tiny changes of demand are demands)
    kd = case.get("demand_scale", 1)
    for op in case["ops"]:
        e = op["e"]
        if e == "Write":
            raised = ""
            try:
                comp.demand = (op["D"] if n % 2 == 0 else float(op["D"])) if kd == 1 else op["D"] * kd
            except Exception as ex:  # noqa: a write has no documented way to fail - the shares are what they are
                raised = type(ex).__name__
            events.append({"e": "Write", "D": op["D"], "cd": [scaled(c.demand / kd, L) for c in mine], "nchildren": len(comp.children), "raised": raised})
        elif e == "Read":
            def rd(fn, q):
                try:
                    return scaled(fn(), q)
                except Exception:  # noqa: a read that raises gives no value on any grid
                    return OFFGRID
            events.append({"e": "Read", "demand": rd(lambda: comp.demand / kd, 1), "supply": rd(lambda: comp.supply / ks, 1), "u": rd(lambda: comp.utilisation, 4 * L), "a": rd(lambda: comp.allocation, 4 * L), "nchildren": len(comp.children)})
        elif e == "SetChild":
            c = mine[op["i"] - 1]
            if op["attr"] == "s":
                c._supply = (op["v"] if n % 3 else float(op["v"])) * ks
            elif op["attr"] == "u":
                c._utilisation = op["v"] / 4
            else:
                c._allocation = op["v"] / 4
            events.append(dict(op))
        elif e == "AddChild":
            c = op["c"]
            pool = RecPool(supply=c["s"] * ks, demand=0, utilisation=c["u"] / 4, allocation=c["a"] / 4, name="c%d" % n)
            mine.append(pool)
            if n % 2:
                comp.children.append(pool)
            else:
                comp.children = comp.children + [pool]
            events.append({"e": "AddChild", "c": {"s": c["s"], "u": c["u"], "a": c["a"], "d": 0}})
        elif e == "Remove":
            gone = mine.pop(op["i"] - 1)
            if n % 2:
                comp.children.remove(gone)
            else:
                comp.children = [c for c in comp.children if c is not gone]
            events.append(dict(op))
        n += 1
    return {"kind": kind, "events": events}


def case_of_path(p):
    ops = []
    for a in p["hist"]:
        n = a["name"]
        if n == "Write":
            ops.append({"e": "Write", "D": a["D"]})
        elif n == "Read":
            ops.append({"e": "Read"})
        elif n == "SetChild":
            ops.append({"e": "SetChild", "i": a["i"], "attr": a["attr"], "v": a["v"]})
        elif n == "AddChild":
            ops.append({"e": "AddChild", "c": {k: a["c"][k] for k in "sua"}})
        elif n == "Remove":
            ops.append({"e": "Remove", "i": a["i"]})
    return {"kind": p["kind"], "ops": ops, "src": "tlc-simulate"}


def random_case(rnd):
    kind = rnd.choice(KINDS)
    ops, k = [], 0
    # fitness values in quarters; every possible total weight of <= 4 children must divide L:
    # either 0..1 in quarters or even quarters up to 1.5 (values above 1 are legal inputs)
    pal = rnd.choice([[0, 0, 1, 2, 3, 4], [0, 0, 2, 4, 6, 6]])
    for _ in range(rnd.randrange(4, 25)):
        c = rnd.random()
        if c < 0.25 and k < 4:
            ops.append({"e": "AddChild", "c": {"s": rnd.choice([0, 0, 1, 2, 3, 4]), "u": rnd.choice(pal), "a": rnd.choice(pal)}})
            k += 1
        elif c < 0.5:
            ops.append({"e": "Write", "D": rnd.choice([0, 1, 2, 3, 5, 7, 8, 12, 100])})
        elif c < 0.7:
            ops.append({"e": "Read"})
        elif c < 0.92 and k:
            attr = rnd.choice("sua")
            ops.append({"e": "SetChild", "i": rnd.randrange(1, k + 1), "attr": attr, "v": rnd.choice(pal if attr != "s" else [0, 0, 1, 2, 3, 4])})
        elif k:
            ops.append({"e": "Remove", "i": rnd.randrange(1, k + 1)})
            k -= 1
    return {"kind": kind, "ops": ops, "src": "random", "supply_scale": rnd.choice([1, 1, 2.0 ** -40, 2.0 ** 40, 2.0 ** -70]), "demand_scale": rnd.choice([1, 1, 1, 2.0 ** -30, 2.0 ** 30, 2.0 ** -60])}


def judge(ctx, cases, traces, verdicts):
    for case, tr, v in zip(cases, traces, verdicts):
        ctx.traces_total += 1
        ctx.events_total += len(tr["events"])
        if v.accepted:
            ctx.traces_accepted += 1
        if v.nc is not None:
            ctx.traces_nc += 1
        for idx, name in v.pv:
            ctx.add_violation(name, {"invariant": name, "kind": tr["kind"]}, "%s composite: event %d %s of %s violates %s" % (tr["kind"], idx, json.dumps(tr["events"][idx - 1]), json.dumps(tr["events"][:idx - 1])[-700:], name), case, detail={"trace": tr, "event_index": idx})
        if v.nc is not None and not v.pv:
            ctx.add_drift("event %d %s of a %s composite is not a step of Composite.tla" % (v.nc[0], json.dumps(tr["events"][v.nc[0] - 1]), tr["kind"]), case)
        for e in tr["events"]:
            if e["e"] == "Write" and len(e["cd"]) >= 2:
                ctx.note_distinct([tr["kind"], e])


def run(ctx):
    thorough = ctx.tier == "thorough"
    rnd = random.Random(ctx.seed)
    dom = {"kinds": KINDS, "DemandVals": [0, 3, 8], "SupplyVals": [0, 1, 3], "FitVals": [0, 2, 6], "maxk": 3 if thorough else 2, "depth": 6 if thorough else 5}
    res = tlc.run("MCComp", mc_cfg(dom), module_text=mc_module("MCComp", dom), timeout=3000)
    ctx.model_must_hold("Composite model", res)
    ctx.add_model_run("Composite.tla/maxk=%d depth=%d" % (dom["maxk"], dom["depth"]), res, exhaustive=False, note="all histories to the stated depth")
    sdom = {"kinds": KINDS, "DemandVals": [0, 1, 5, 8, 12], "SupplyVals": [0, 1, 2, 4], "FitVals": [0, 2, 4, 6], "maxk": 4, "depth": 0}
    sdepth = 14
    paths, sres = tlc.simulate_paths("MCCompSim", mc_cfg(sdom, sim=True), mc_module("MCCompSim", sdom, sim_depth=sdepth), num=3000 if thorough else 400, depth=sdepth, seed=ctx.seed + 1)
    # TLC evaluates the constraint on every successor it generates, so it prints the chosen
    # walk plus all one-step alternatives at the last position: all are behaviours of the spec
    ctx.extra["behaviours_generated"] = len(paths)
    budget = 20000 if thorough else 3000
    if len(paths) > budget:
        paths = rnd.sample(paths, budget)
    ctx.extra["behaviours_replayed"] = len(paths)
    ctx.extra["simulate_states"] = sres.generated
    cases = [dict(case_of_path(p), supply_scale=[1, 2.0 ** -40, 2.0 ** 40][k % 3]) for k, p in enumerate(paths)]
    for _ in range(8000 if thorough else 1500):
        cases.append(random_case(rnd))
    def safe(c):
        try:
            return execute(c)
        except Exception as e:  # noqa: the composite raised outside a read or write (children, append ...)
            return {"kind": c["kind"], "events": [{"e": "Read", "demand": OFFGRID, "supply": OFFGRID, "u": OFFGRID, "a": OFFGRID, "nchildren": 0}], "raised": "%s: %s" % (type(e).__name__, str(e)[:120])}

    traces = [safe(c) for c in cases]
    verdicts, tstates = traceval.validate("CompositeTrace", traces, DUMMY, timeout=3000)
    ctx.extra["trace_states"] = tstates
    judge(ctx, cases, traces, verdicts)
    ctx.samples = [traces[0], traces[-1]]
    ctx.extra["rule"] = "cases = behaviours generated by TLC -simulate from Composite.tla (depth 14) + random histories; distinct non-trivial = distinct (kind, write event with >= 2 children and the observed shares)"
    ctx.assumptions = [
        "children have independent attributes (a child whose supply tracks its demand instantly is not generated)",
        "supply in whole units 0..4, utilisation/allocation in quarters 0..1.5, demands <= 100, <= 4 children; magnitudes: supplies scaled by 2^-70, 2^-40, 1, 2^40 (exactly representable)",
        "observed floats must be within 1e-9 relative of the exact rational after scaling by lcm(1..16): 'up to floating-point rounding'",
    ]


def replay(ctx, payload):
    c = payload["case"]
    t = execute(c)
    verdicts, _ = traceval.validate("CompositeTrace", [t], DUMMY)
    judge(ctx, [c], [t], verdicts)
    ctx.samples = [t]
    ctx.level = "exploration"
    ctx.distinct.update({"replay-a", "replay-b"})
