"""C04 - a >> chain builds exactly the nested pipeline, however grouped or curried.

Specifications: specs/Chain.tla (the >> evaluation machine, clause by clause of _partial.py) and
specs/Binding.tla (Python's partial call binding as a predicate, supply calls as steps).
TLC enumerates every parenthesisation x tail form (checking Associative / OnceLastToFirst on
the model) and signatures x argument supplies; every case is executed on the real templates
(three class variants for binding: plain, interface subclass, @service) and validated by TLC.
"""
import json
import random

from .. import core, tlc, traceval

CH_INV = ["Associative", "OnceLastToFirst", "ArgsInOrder"]
TAILS = ["instance", "template", "curried"]


def chain_module(name, maxn):
    L = ["---- MODULE %s ----" % name, "EXTENDS Chain, Json"]
    L.append('MCInit == \\E nn \\in 2..%d : \\E tl \\in {"instance", "template", "curried"} : \\E e \\in Trees(1, nn) : InitWith(nn, tl, e)' % maxn)
    L.append("MCSpec == MCInit /\\ [][Next]_vars")
    L.append('EmitInit == act # "Init" \\/ PrintT(<<"INIT", ToJson([n |-> n, tail |-> tail, expr |-> expr])>>)')
    L.append("====")
    return "\n".join(L)


def chain_cfg():
    return "SPECIFICATION MCSpec\n" + "".join("INVARIANT %s\n" % i for i in CH_INV) + "CONSTRAINT EmitInit\n"


def bind_module(name, thorough):
    L = ["---- MODULE %s ----" % name, "EXTENDS Binding, Json"]
    L.append('Names == {"a", "b", "k1", "zz", "target"}')
    L.append('PosSeqs == {<<>>, <<"a">>, <<"a", "b">>}')
    L.append("KwSets(m) == {s \\in SUBSET Names : Cardinality(s) <= m}")
    L.append("Call(np, ks, pl) == [npos |-> np, kws |-> ks, pool |-> pl]")
    L.append("Calls1 == {Call(np, ks, pl) : np \\in 0..3, ks \\in KwSets(2), pl \\in BOOLEAN} \\ {Call(0, ks, TRUE) : ks \\in KwSets(2)}")
    L.append("Calls2 == {Call(np, ks, pl) : np \\in 0..%d, ks \\in KwSets(1), pl \\in BOOLEAN} \\ {Call(0, ks, TRUE) : ks \\in KwSets(1)}" % (2 if thorough else 1))
    L.append(
        'MCInit == \\E p \\in PosSeqs, va \\in BOOLEAN, vk \\in BOOLEAN, ko \\in {{}, {"k1"}}, lf \\in BOOLEAN, v \\in {"plain", "service"} :\n'
        "    \\E c1 \\in Calls1 : \\E cs \\in {<<c1>>} \\cup {<<c1, c2>> : c2 \\in Calls2} :\n"
        "    InitWith([pos |-> p, varargs |-> va, kwonly |-> ko, varkw |-> vk, leaf |-> lf], v, cs)"
    )
    L.append("MCSpec == MCInit /\\ [][Next]_vars")
    L.append('Sane == outcome \\in {"template", "rejected"} /\\ (outcome = "rejected" => k > 1)')
    L.append('EmitInit == k # 1 \\/ PrintT(<<"INIT", ToJson([sig |-> sig, variant |-> variant, calls |-> calls])>>)')
    L.append("====")
    return "\n".join(L)


def bind_cfg():
    return "SPECIFICATION MCSpec\nINVARIANT Sane\nCONSTRAINT EmitInit\n"


# ---------------------------------------------------------------- chain driver
def chain_execute(case):
    """case: {n, tail, expr, seed}"""
    from cobald.interfaces import Pool, PoolDecorator, Controller, Partial
    from cobald.interfaces._partial import PartialBind

    import threading
    import cobald.controller.stepwise as stepwise_mod

    rnd = random.Random(case["seed"])
    n, tail = case["n"], case["tail"]
    LOG = []

    class Tok(object):
        """an argument whose IDENTITY matters (equal only to itself): elements must receive the
        very objects that were supplied, not copies"""
        __slots__ = ("i", "j")

        def __init__(self, i, j):
            self.i, self.j = i, j

    def value(kind, i, j):
        r = rnd.random()
        if r < 0.3:
            return Tok(i, j)
        if r < 0.4:
            return threading.Lock()   # can be neither copied nor pickled
        if r < 0.5:
            return [kind, i, j]       # mutable, shared
        return (kind, i, j)

    # the head may be a stepwise controller template (control.s(...): a template of the Stepwise
    # controller, built by UnboundStepwise): the class it constructs is looked up in the module
    # when the template is made, which lets this driver observe the construction
    step_head = n >= 2 and rnd.random() < 0.3
    RealStepwise = stepwise_mod.Stepwise

    class RecStep(RealStepwise):
        pos = 1

        def __init__(self, target, base, *rules, **kwargs):
            RealStepwise.__init__(self, target, base, *rules, **kwargs)
            self.pos, self.args, self.kwargs = 1, (base,) + rules, kwargs
            LOG.append(1)
    RecStep.__name__ = RecStep.__qualname__ = "Elem1"

    # element classes may share a parent class of their own kind that is used as a (bare)
    # template itself: templates of a class are templates of THAT class
    parents = {}
    for kind_ in (Pool, Controller, PoolDecorator):
        if kind_ is Pool:
            class Parent(Pool):
                supply = demand = utilisation = allocation = 0
                pos = 0

                def __init__(self, *args, **kwargs):
                    self.args, self.kwargs, self.target = args, kwargs, None
        else:
            class Parent(kind_):
                pos = 0

                def __init__(self, target, *args, _kind=kind_, **kwargs):
                    _kind.__init__(self, target)
                    self.args, self.kwargs = args, kwargs
        Parent.__name__ = Parent.__qualname__ = "Parent" + kind_.__name__
        parents[kind_] = Parent
        if rnd.random() < 0.6:
            Parent.s()

    def make(i):
        base = Pool if i == n else (Controller if (i == 1 and rnd.random() < 0.5) else PoolDecorator)
        if rnd.random() < 0.5:
            base = parents[base]
        if base is Pool or base is parents[Pool]:
            class Rec(base):
                supply = demand = utilisation = allocation = 0

                def __init__(self, *args, **kwargs):
                    self.pos, self.args, self.kwargs, self.target = i, args, kwargs, None
                    LOG.append(i)
        else:
            class Rec(base):
                def __init__(self, target, *args, **kwargs):
                    base.__init__(self, target)
                    self.pos, self.args, self.kwargs = i, args, kwargs
                    LOG.append(i)
        Rec.pos = i
        Rec.__name__ = Rec.__qualname__ = "Elem%d" % i
        return Rec

    classes = {i: make(i) for i in range(1, n + 1)}
    # pools and decorators may be falsy (an empty composite has __len__() == 0): truthiness
    # must never decide whether an element receives its target
    for i, cls in classes.items():
        r = rnd.random()
        if r < 0.25:
            cls.__bool__ = lambda self: False
        elif r < 0.4:
            cls.__len__ = lambda self: 0
    expect = {}

    def step_template():
        def rule(j):
            return lambda pool, interval: j
        control = stepwise_mod.stepwise(rule(0))
        added = []
        for j in range(rnd.randrange(0, 3)):
            if rnd.random() < 0.5:
                control.s()   # a template taken while rules are still being registered
            added.append((10.0 * (j + 1), rule(j + 1)))
            if rnd.random() < 0.5:
                control.add(added[-1][1], supply=added[-1][0])
            else:
                control.add(supply=added[-1][0])(added[-1][1])
        pos = [(100.0 * (j + 1), rule(10 + j)) for j in range(rnd.randrange(0, 3))]
        kws = {"interval": rnd.choice([0.5, 7, 20])} if rnd.random() < 0.6 else {}
        expect[1] = ((control.base,) + tuple(added) + tuple(pos), dict(kws))
        ncalls = rnd.randrange(0, 3)
        cuts = sorted(rnd.randrange(0, len(pos) + 1) for _ in range(ncalls))
        parts = [pos[a:b] for a, b in zip([0] + cuts, cuts + [len(pos)])]
        kparts = [dict() for _ in range(ncalls + 1)]
        for k, v in kws.items():
            kparts[rnd.randrange(0, ncalls + 1)][k] = v
        t = control.s(*parts[0], **kparts[0])
        for a, kw in zip(parts[1:], kparts[1:]):
            t = t(*a, **kw)
        return t

    def template(i):
        if i == 1 and step_head:
            return step_template()
        npos = rnd.randrange(0, 3)
        pos = [value("p", i, j) for j in range(npos)]
        kws = {k: value("k", i, k) for k in rnd.sample(["ka", "kb", "kc"], rnd.randrange(0, 4))}
        expect[i] = (tuple(pos), dict(kws))
        if i == n and tail == "instance":
            return classes[i](*pos, **kws)
        ncalls = rnd.randrange(0, 3) if not (i == n and tail == "template") else 0
        if i == n and tail == "curried":
            ncalls = rnd.randrange(1, 3)
        # split positionals (in order) and keywords over the s() call and ncalls curry calls
        cuts = sorted(rnd.randrange(0, len(pos) + 1) for _ in range(ncalls))
        parts = [pos[a:b] for a, b in zip([0] + cuts, cuts + [len(pos)])]
        kparts = [dict() for _ in range(ncalls + 1)]
        for k, v in kws.items():
            kparts[rnd.randrange(0, ncalls + 1)][k] = v
        t = classes[i].s(*parts[0], **kparts[0])
        for a, kw in zip(parts[1:], kparts[1:]):
            t = t(*a, **kw)
        return t

    cache = {}

    def ev(e, path=()):
        if e[0] == "E":
            v = template(e[1])
        else:
            left = ev(e[1], path + (1,))
            right = ev(e[2], path + (2,))
            v = left >> right
        cache[path] = v
        return v

    def ev_again(e, path=()):
        """the same expression once more, REUSING every unbound operand (template or group)
        of the first evaluation: building a pipeline must not change its operands"""
        v0 = cache.get(path)
        if e[0] == "E" or (isinstance(v0, (Partial, PartialBind)) and rnd.random() < 0.5):
            return v0
        # (an unbound group is either reused as it is or combined once more from its - reused -
        #  operands: both must give what the first evaluation gave)
        return ev_again(e[1], path + (1,)) >> ev_again(e[2], path + (2,))

    exc = ""
    stepwise_mod.Stepwise = RecStep
    try:
        # the pool instance exists before the expression is evaluated
        res = ev(case["expr"])
        if case.get("reuse") and tail != "instance":
            del LOG[:]
            res = ev_again(case["expr"])
    except Exception as ex:  # noqa
        res = None
        exc = type(ex).__name__
    finally:
        stepwise_mod.Stepwise = RealStepwise

    argsok = True

    def enc(o, depth=0):
        nonlocal argsok
        if depth > 20:
            return {"t": "deep"}
        if o is None:
            return {"t": "none"}
        if isinstance(o, PartialBind):
            return {"t": "bind", "parent": enc(o.parent, depth + 1), "targets": [enc(x, depth + 1) for x in o.targets]}
        if isinstance(o, Partial):
            return {"t": "tpl", "i": getattr(o.ctor, "pos", 0)}
        if hasattr(o, "pos"):
            if (tuple(o.args), dict(o.kwargs)) != expect.get(o.pos):
                argsok = False
            return {"t": "obj", "i": o.pos, "target": enc(getattr(o, "target", None), depth + 1)}
        return {"t": "foreign"}

    result = enc(res) if not exc else {"t": "raised"}
    return {"n": n, "tail": tail, "expr": case["expr"], "seed": case["seed"], "reuse": bool(case.get("reuse")), "result": result, "log": LOG, "argsok": argsok, "exc": exc}


def random_tree(rnd, lo, hi):
    if lo == hi:
        return ["E", lo]
    k = rnd.randrange(lo, hi)
    return ["R", random_tree(rnd, lo, k), random_tree(rnd, k + 1, hi)]


# ---------------------------------------------------------------- binding driver
def target_name(sig, seed):
    if sig["leaf"]:
        return "target"
    if not sig["pos"] and sig["varargs"] and seed % 3 == 0:
        return "*"
    return ["target", "pool"][seed % 2]


def build_class(sig, variant, seed):
    from cobald.interfaces import Pool, PoolDecorator, Controller
    from cobald.daemon import service
    import threading

    # the parameter that receives the target need not be called "target", and a constructor
    # "(self, *args, **kwargs)" receives it through *args (the model's keyword "target" stands
    # for whatever the slot is called: target_name())
    tname = target_name(sig, seed)
    params = ["self"] + ([] if sig["leaf"] or tname == "*" else [tname])
    for j, p in enumerate(sig["pos"]):
        params.append(p if j == 0 and seed % 2 else p + "=None")
    if any("=" in p for p in params):  # defaults must not precede non-defaults
        seen = False
        fixed = []
        for p in params:
            if "=" in p:
                seen = True
            elif seen and p not in ("self", "target", "pool"):
                p = p + "=None"
            fixed.append(p)
        params = fixed
    if sig["varargs"]:
        params.append("*args")
    elif sig["kwonly"]:
        params.append("*")
    for kname in sig["kwonly"]:
        params.append(kname + "=0" if seed % 3 else kname)
    if sig["varkw"]:
        params.append("**kwargs")
    src = "def __init__(%s):\n    pass\n" % ", ".join(params)
    ns = {}
    exec(src, ns)
    if sig["leaf"]:
        base = Pool
        body = {"__init__": ns["__init__"], "supply": 0, "demand": 0, "utilisation": 0, "allocation": 0}
    else:
        base = [Controller, PoolDecorator][seed % 2]
        body = {"__init__": ns["__init__"]}
    if variant == "service":
        def run(self):
            return None
        if seed % 4 == 1:
            # a template class that SUBCLASSES a service class and has its own constructor:
            # its own signature is what counts
            basebody = dict(body, run=run)
            exec("def __init__(self, %sq1=None, q2=None, *, q3=0):\n    pass\n" % ("" if sig["leaf"] else "target, "), ns)
            basebody["__init__"] = ns["__init__"]
            svcbase = service(flavour=threading)(type("SvcBase", (base,), basebody))
            cls = type("SubSvc", (svcbase,), {"__init__": body["__init__"]})
        else:
            body["run"] = run
            cls = type("Svc", (base,), body)
            cls = service(flavour=threading)(cls)
    else:
        cls = type("Plain", (base,), body)
    return cls


def bind_execute(case):
    """case: {sig, variant, calls, seed}"""
    from cobald.interfaces import Partial
    from ..fixtures import RecPool

    cls = build_class(case["sig"], case["variant"], case["seed"])
    outcomes = []
    tpl = None
    for idx, c in enumerate(case["calls"]):
        pos = [("v", idx, j) for j in range(c["npos"])]
        if c["pool"] and pos:
            pos[0] = RecPool()
        tname = target_name(case["sig"], case["seed"])
        kws = {(tname if k == "target" and tname == "pool" else k): ("kw", idx, k) for k in c["kws"]}
        if c["pool"] and pos:
            # the same call shape (as many positionals, the same keywords) was used before with
            # harmless values: what is decided about THIS call depends on its arguments alone
            warm = [("v", idx, j) for j in range(c["npos"])]
            try:
                (cls.s if tpl is None else tpl)(*warm, **kws)
            except Exception:  # noqa
                pass
        try:
            tpl = cls.s(*pos, **kws) if tpl is None else tpl(*pos, **kws)
        except TypeError:
            outcomes.append("rejected")
            break
        except Exception:  # noqa
            outcomes.append("other")
            break
        outcomes.append("template" if isinstance(tpl, Partial) else "other")
        if outcomes[-1] != "template":
            break
    return {"sig": case["sig"], "variant": case["variant"], "calls": case["calls"], "outcomes": outcomes, "seed": case["seed"]}


def norm_bind(rec, seed):
    sig = rec["sig"]
    sig = {"pos": list(sig["pos"]), "varargs": bool(sig["varargs"]), "kwonly": sorted(sig["kwonly"]), "varkw": bool(sig["varkw"]), "leaf": bool(sig["leaf"])}
    calls = [{"npos": c["npos"], "kws": sorted(c["kws"]), "pool": bool(c["pool"])} for c in rec["calls"]]
    return {"sig": sig, "variant": rec["variant"], "calls": calls, "seed": seed}


def judge_chain(ctx, traces, verdicts):
    for tr, v in zip(traces, verdicts):
        ctx.traces_total += 1
        ctx.events_total += 1
        if v.accepted:
            ctx.traces_accepted += 1
        if v.nc is not None:
            ctx.traces_nc += 1
        case = {"kind": "chain", "n": tr["n"], "tail": tr["tail"], "expr": tr["expr"], "seed": tr["seed"], "reuse": tr.get("reuse", False)}
        for name in sorted({n for _, n in v.pv}):
            ctx.add_violation(name, {"invariant": name, "part": "chain"}, "expression %s (tail %s) -> %s log %s %s violates %s" % (json.dumps(tr["expr"]), tr["tail"], json.dumps(tr["result"])[:300], tr["log"], tr["exc"], name), case, detail={"trace": tr})
        if v.nc is not None and not v.pv:
            ctx.add_drift("expression %s evaluates differently from Chain.tla" % json.dumps(tr["expr"]), case)
        ctx.note_distinct(["chain", tr["tail"], tr["expr"]])


def judge_bind(ctx, traces, verdicts):
    for tr, v in zip(traces, verdicts):
        ctx.traces_total += 1
        ctx.events_total += len(tr["outcomes"])
        if v.accepted:
            ctx.traces_accepted += 1
        if v.nc is not None:
            ctx.traces_nc += 1
        case = {"kind": "bind", "sig": tr["sig"], "variant": tr["variant"], "calls": tr["calls"], "seed": tr["seed"]}
        for name in sorted({n for _, n in v.pv}):
            ctx.add_violation(name, {"invariant": name, "part": "binding", "variant": tr["variant"]}, "signature %s (%s class): supplying %s gave %s: violates %s" % (json.dumps(tr["sig"]), tr["variant"], json.dumps(tr["calls"]), tr["outcomes"], name), case, detail={"trace": tr})
        if v.nc is not None and not v.pv:
            ctx.add_drift("supply %s on %s is not a behaviour of Binding.tla" % (json.dumps(tr["calls"]), json.dumps(tr["sig"])), case)
        ctx.note_distinct(["bind", tr["sig"], tr["calls"], tr["variant"]])


def run(ctx):
    thorough = ctx.tier == "thorough"
    rnd = random.Random(ctx.seed)
    maxn = 7 if thorough else 6
    res = tlc.run("MCChain", chain_cfg(), module_text=chain_module("MCChain", maxn), workers=1, timeout=3000, heap="8g")
    ctx.model_must_hold("Chain model", res)
    ctx.add_model_run("Chain.tla/all parenthesisations of 2..%d elements x 3 tail forms" % maxn, res)
    cases = [dict(json.loads(p[1])) for p in res.prints if p[0] == "INIT"]
    ctx.extra["expressions_emitted"] = len(cases)
    chain_cases = []
    reps = 3  # each expression with several argument splits
    for i, c in enumerate(cases):
        for r in range(reps):
            chain_cases.append({"n": c["n"], "tail": c["tail"], "expr": c["expr"], "seed": ctx.seed * 100003 + i * 7 + r, "reuse": r == 1})
    for i in range(4000 if thorough else 600):
        n = rnd.randrange(7, 11)
        chain_cases.append({"n": n, "tail": rnd.choice(TAILS), "expr": random_tree(rnd, 1, n), "seed": rnd.randrange(1 << 30), "reuse": rnd.random() < 0.5})
    ctraces = [chain_execute(c) for c in chain_cases]
    v1, st1 = traceval.validate("ChainTrace", [{k: t[k] for k in ("n", "tail", "expr", "result", "log", "argsok")} for t in ctraces], "", timeout=3000)
    judge_chain(ctx, ctraces, v1)
    # ---- binding
    res = tlc.run("MCBind", bind_cfg(), module_text=bind_module("MCBind", thorough), workers=1, timeout=3000, heap="8g")
    ctx.model_must_hold("Binding model", res)
    ctx.add_model_run("Binding.tla/48 signatures x supplies of <= 2 calls x 2 class variants", res)
    brecs = [json.loads(p[1]) for p in res.prints if p[0] == "INIT"]
    ctx.extra["binding_cases_emitted"] = len(brecs)
    budget = 120000 if thorough else 12000
    if len(brecs) > budget:
        brecs = rnd.sample(brecs, budget)
    bcases = [norm_bind(r, ctx.seed + i) for i, r in enumerate(brecs)]
    btraces = [bind_execute(c) for c in bcases]
    v2, st2 = traceval.validate("BindingTrace", [{k: t[k] for k in ("sig", "variant", "calls", "outcomes")} for t in btraces], "", timeout=3000)
    judge_bind(ctx, btraces, v2)
    ctx.extra["trace_states"] = st1 + st2
    ctx.extra["behaviours_replayed"] = len(chain_cases) + len(bcases)
    ctx.samples = [ctraces[0], ctraces[-1], btraces[0], btraces[-1]]
    ctx.extra["rule"] = "chain cases = every parenthesisation x tail form enumerated by TLC, each with 3 random splits of the arguments over curry calls, + random expressions of 7..10 elements; binding cases = signatures x argument supplies enumerated by TLC x {plain, @service} class variants; distinct non-trivial = distinct cases"
    ctx.assumptions = [
        "element 1 is a controller or decorator, elements 2..N-1 are decorators, element N is the pool (a controller in the middle of a chain is not a pool and is not generated)",
        "signatures: <= 2 named positional parameters (with/without defaults), *args, one keyword-only name, **kwargs; positional-only parameters and metaclass tricks are not generated",
        "Binding.tla's CanBind is a transcription of inspect.Signature.bind_partial's rule, i.e. of what Python itself will accept later",
    ]


def replay(ctx, payload):
    c = payload["case"]
    if c["kind"] == "chain":
        t = chain_execute(c)
        v, _ = traceval.validate("ChainTrace", [{k: t[k] for k in ("n", "tail", "expr", "result", "log", "argsok")}], "")
        judge_chain(ctx, [t], v)
    else:
        t = bind_execute(c)
        v, _ = traceval.validate("BindingTrace", [{k: t[k] for k in ("sig", "variant", "calls", "outcomes")}], "")
        judge_bind(ctx, [t], v)
    ctx.samples = [t]
    ctx.level = "exploration"
    ctx.distinct.update({"replay-a", "replay-b"})
