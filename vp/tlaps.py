"""Run the TLA+ proof system (tlapm) on a proof module of specs/proofs/.

The proof modules EXTEND the specification modules the checks model-check and bind to the code
(Stopping, Closing, Registration) and prove their safety invariants for ANY set of submitters -
TLC decides them for two or three.  A proof that no longer goes through is a defect of /verif
(the specification was changed without its proof): exit status 2, never a verdict on the code.
"""
import os
import re
import shutil
import subprocess
import time

from . import tlc

HERE = os.path.dirname(os.path.dirname(os.path.abspath(__file__)))


def prove(module, timeout=1500, threads=8):
    """-> {"module", "obligations", "wall_s"}; raises tlc.MachineryError if anything is unproved"""
    d = tlc.subdir("tlaps-" + module)
    for f in os.listdir(os.path.join(HERE, "specs")):
        if f.endswith(".tla"):
            shutil.copy(os.path.join(HERE, "specs", f), d)
    shutil.copy(os.path.join(HERE, "specs", "proofs", module + ".tla"), d)
    t0 = time.time()
    try:
        r = subprocess.run(["tlapm", "--threads", str(threads), module + ".tla"], cwd=d, stdout=subprocess.PIPE, stderr=subprocess.STDOUT, text=True, timeout=timeout)
    except FileNotFoundError:
        raise tlc.MachineryError("tlapm is not installed")
    except subprocess.TimeoutExpired:
        raise tlc.MachineryError("tlapm timed out on %s" % module)
    m = re.search(r"All (\d+) obligations? proved", r.stdout)
    if r.returncode != 0 or not m:
        bad = [l for l in r.stdout.splitlines() if "ERROR" in l or l.startswith("File")][:6]
        raise tlc.MachineryError("tlapm could not prove %s: %s" % (module, " | ".join(bad)))
    return {"module": module, "obligations": int(m.group(1)), "wall_s": round(time.time() - t0, 1)}
