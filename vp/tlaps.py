"""Run the TLA+ proof system (tlapm) on a proof module of specs/proofs/.

The proof modules EXTEND the specification modules the checks model-check and bind to the code
(Stopping, Closing, Registration) and prove their safety invariants for ANY set of submitters -
TLC decides them for two or three.  A proof that does not go through is reported, not fatal
(the provers work against time limits; see prove()).
"""
import os
import re
import shutil
import subprocess
import time

from . import tlc

HERE = os.path.dirname(os.path.dirname(os.path.abspath(__file__)))


def prove(module, timeout=1500, threads=8):
    """-> {"module", "proved", "obligations", "wall_s"[, "reason"]}

    The provers work against per-obligation time limits, which a heavily loaded machine can
    break: a failed run is repeated once with much longer limits, and a proof that still does
    not go through is REPORTED (evidence, a NOTE line) but never fails the check - TLC decides
    the same invariants for the bounded instances in every run."""
    d = tlc.subdir("tlaps-" + module)
    for f in os.listdir(os.path.join(HERE, "specs")):
        if f.endswith(".tla"):
            shutil.copy(os.path.join(HERE, "specs", f), d)
    shutil.copy(os.path.join(HERE, "specs", "proofs", module + ".tla"), d)
    t0 = time.time()
    reason = ""
    for stretch, thr in ((3, threads), (10, max(2, threads // 2))):
        try:
            r = subprocess.run(["tlapm", "--threads", str(thr), "--stretch", str(stretch), module + ".tla"], cwd=d, stdout=subprocess.PIPE, stderr=subprocess.STDOUT, text=True, timeout=timeout)
        except FileNotFoundError:
            reason = "tlapm is not installed"
            break
        except subprocess.TimeoutExpired:
            reason = "tlapm timed out"
            continue
        m = re.search(r"All (\d+) obligations? proved", r.stdout)
        if r.returncode == 0 and m:
            return {"module": module, "proved": True, "obligations": int(m.group(1)), "wall_s": round(time.time() - t0, 1)}
        reason = " | ".join([l for l in r.stdout.splitlines() if "ERROR" in l or l.startswith("File")][:4])[:600]
    print("NOTE tlapm did not prove %s this time (%s); the bounded instances are decided by TLC" % (module, reason), flush=True)
    return {"module": module, "proved": False, "obligations": 0, "wall_s": round(time.time() - t0, 1), "reason": reason}
