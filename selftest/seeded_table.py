#!/usr/bin/env python3
"""Regenerate the table of seeded changes in DESIGN.md (section 9) from seeded/*/meta.json.

usage: seeded_table.py [--check]     (--check: exit 1 if DESIGN.md is not up to date)
"""
import glob
import json
import os
import re
import sys

HOME = os.path.dirname(os.path.dirname(os.path.abspath(__file__)))
HEAD = "| seeded change | property | first failing formula(s) | needs |"


def rows():
    out = []
    for m in sorted(glob.glob(os.path.join(HOME, "seeded", "*", "meta.json"))):
        d = json.load(open(m))
        names = []
        for l in d["check"]["lines"]:
            mm = re.match(r"\s*invariant=(\w+)", l)
            if mm and mm.group(1) not in names:
                names.append(mm.group(1))
        needs = d["needs"].replace("|", "/")
        if len(needs) > 118:
            needs = needs[:117] + "…"
        out.append("| %s | %s | %s | %s |" % (d["name"], d["property"], " / ".join(names[:2]) or ("not detected" if not d["check"]["detected"] else "?"), needs))
    return out


def main():
    p = os.path.join(HOME, "DESIGN.md")
    lines = open(p).read().split("\n")
    i = lines.index(HEAD)
    j = i
    while j < len(lines) and lines[j].startswith("|"):
        j += 1
    new = lines[:i + 2] + rows() + lines[j:]
    if "--check" in sys.argv:
        sys.exit(0 if new == lines else 1)
    open(p, "w").write("\n".join(new))
    print("%d rows" % len(rows()))


if __name__ == "__main__":
    main()
