#!/bin/sh
# usage: recheck_seeded.sh [name-prefix ...]
# Re-verifies every kept seeded change against the CURRENT /repo HEAD without touching /repo:
# a scratch worktree under /tmp gets the patch, the quick check of the change's property runs
# against it (VERIF_REPO), and the worktree is removed at the end.  Prints one line per change:
#   <name> <property> applied=<yes|no> exit=<rc> detected=<yes|no>
# Exit 0 iff every change applies and is detected (exit 1 + VIOLATION line).
set -u
H="${VERIF_HOME:-/verif}"   # a snapshot of /verif may be used for long background runs
wt=$(mktemp -d /tmp/recheck-wt.XXXXXX)
rmdir "$wt"
git -C /repo worktree add -q --detach "$wt" HEAD || exit 2
trap 'git -C /repo worktree remove --force "$wt" >/dev/null 2>&1; rm -rf "$wt" /tmp/vp-mutant-evidence' EXIT INT TERM
bad=0
for d in "$H"/seeded/*/; do
  name=$(basename "$d")
  if [ $# -gt 0 ]; then
    hit=0; for p in "$@"; do case "$name" in "$p"*) hit=1;; esac; done
    [ $hit = 1 ] || continue
  fi
  prop=$(/venv/bin/python -c "import json,sys;print(json.load(open(sys.argv[1]))['property'])" "$d/meta.json")
  git -C "$wt" reset -q --hard HEAD && git -C "$wt" clean -fdq
  if ! git -C "$wt" apply "$d/patch.diff" 2>/dev/null && ! git -C "$wt" apply --3way "$d/patch.diff" 2>/dev/null; then
    echo "$name $prop applied=no exit=- detected=no"; bad=1; continue
  fi
  out=$(cd "$H" && VERIF_REPO="$wt" VERIF_EVIDENCE_DIR=/tmp/vp-mutant-evidence ./check "$prop" --tier quick 2>&1)
  rc=$?
  if [ $rc = 1 ] && echo "$out" | grep -q "^VIOLATION property=$prop"; then det=yes; else det=no; bad=1; fi
  echo "$name $prop applied=yes exit=$rc detected=$det $(echo "$out" | grep -m1 '^  invariant=' | cut -c1-60)"
done
exit $bad
