#!/bin/sh
# usage: soak.sh <rounds> [ids...]
# Runs the quick checks repeatedly on the unchanged tree with different seeds (VERIF_SEED) and
# reports every run that exits non-zero or prints VIOLATION / MACHINERY-FAILURE: the checks
# must stay quiet on code where the properties hold, whatever the seed and the timing.
# Evidence of these runs goes to a scratch directory.
rounds="${1:-3}"; shift
ids="${*:-C01 C02 C03 C10 C11 C12 C13}"
bad=0
cd /verif || exit 2
for k in $(seq 1 "$rounds"); do
  for id in $ids; do
    out=$(VERIF_SEED=$((k * 101)) VERIF_EVIDENCE_DIR=/tmp/vp-soak-evidence ./check "$id" --tier quick 2>&1)
    rc=$?
    line=$(echo "$out" | grep "^$id tier=" | cut -c1-200)
    if [ $rc != 0 ] || echo "$out" | grep -q "^VIOLATION\|MACHINERY"; then
      bad=1
      echo "ALARM round=$k $id exit=$rc"
      echo "$out" | grep "^VIOLATION\|^  invariant\|MACHINERY" | cut -c1-600
    fi
    echo "round=$k seed=$((k * 101)) $line drift_lines=$(echo "$out" | grep -c '^DRIFT')"
  done
done
rm -rf /tmp/vp-soak-evidence
exit $bad
