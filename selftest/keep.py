#!/usr/bin/env python3
"""Confirm a seeded change in a scratch worktree and keep it under /verif/seeded/<name>/.

usage: keep.py <name> <property> <worktree> <patch.diff> <demo.py> "<what it needs to manifest>"

Confirms, in the scratch worktree (never in /repo): the patch applies to HEAD, the existing
suite passes with it, the demo fails with it and passes without it.  Then runs the property's
quick check against the worktree with the patch applied (VERIF_REPO), and writes meta.json.
"""
import json, os, shutil, subprocess, sys, time

name, prop, wt, patch, demo, needs = sys.argv[1:7]
PY = "/venv/bin/python"
env = dict(os.environ, PYTHONPATH=wt + "/src", PYTHONDONTWRITEBYTECODE="1")
env.pop("COBALD_VERIF", None)

def _default_sigint():
    # a job started in the background of a non-interactive shell inherits SIGINT as "ignored";
    # Python then installs no KeyboardInterrupt handler and the project's ^C tests hang
    import signal
    signal.signal(signal.SIGINT, signal.SIG_DFL)


def sh(cmd, **kw):
    return subprocess.run(cmd, shell=True, text=True, stdout=subprocess.PIPE, stderr=subprocess.STDOUT, preexec_fn=_default_sigint, **kw)

ran = []
def step(cmd, cwd=wt, e=env, timeout=900):
    r = sh(cmd, cwd=cwd, env=e, timeout=timeout)
    ran.append({"cmd": cmd, "cwd": cwd, "rc": r.returncode, "tail": r.stdout[-400:]})
    return r

assert sh("git diff --quiet -- src", cwd=wt).returncode == 0, "worktree src dirty"
# bring the worktree to /repo's HEAD so the patch is checked against the current tree
head = sh("git -C /repo rev-parse HEAD").stdout.strip()
step("git checkout -q --detach " + head)
r = step("git apply --check " + patch)
if r.returncode != 0:
    print("patch does not apply to current HEAD:\n" + r.stdout); sys.exit(1)
r0 = step("%s %s" % (PY, demo), timeout=120)
step("git apply " + patch)
rt = step("%s -m pytest -q -p no:cacheprovider --timeout=900 -x 2>&1 | tail -3" % PY)
r1 = step("%s %s" % (PY, demo), timeout=120)
step("git checkout -- src")
tests_ok = " passed" in rt.stdout and "failed" not in rt.stdout
print("demo without patch rc=%d, with patch rc=%d, tests: %s" % (r0.returncode, r1.returncode, rt.stdout.strip().splitlines()[-1] if rt.stdout.strip() else "?"))
if not (r0.returncode == 0 and r1.returncode != 0 and tests_ok):
    print("NOT CONFIRMED"); sys.exit(1)
# run the check against the scratch worktree with the patch applied (VERIF_REPO; /repo itself
# is never touched)
sh("git apply " + patch, cwd=wt)
t0 = time.time()
try:
    rc = sh("./check %s --tier quick" % prop, cwd="/verif", timeout=1800, env=dict(os.environ, VERIF_REPO=wt, VERIF_EVIDENCE_DIR="/tmp/vp-mutant-evidence"))
finally:
    sh("git checkout -- src", cwd=wt)
lines = [l[:300] for l in rc.stdout.splitlines() if l.startswith(("VIOLATION", "KNOWN-FINDING", "DRIFT", "MACHINERY", prop + " tier", "  invariant"))]
detected = rc.returncode == 1 and any(l.startswith("VIOLATION") for l in lines)
print("check %s: exit=%d detected=%s (%.0fs)" % (prop, rc.returncode, detected, time.time() - t0))
for l in lines[:6]: print("   " + l)
d = os.path.join("/verif/seeded", name)
os.makedirs(d, exist_ok=True)
shutil.copy(patch, os.path.join(d, "patch.diff"))
shutil.copy(demo, os.path.join(d, "demo.py"))
json.dump({"name": name, "property": prop, "needs": needs, "base_commit": head, "confirmed": {"tests_pass_with_patch": tests_ok, "demo_rc_without_patch": r0.returncode, "demo_rc_with_patch": r1.returncode},
           "check": {"cmd": "./check %s --tier quick" % prop, "exit": rc.returncode, "detected": detected, "lines": lines[:8]}, "ran": ran,
           "how_to_rerun": "/verif/selftest/recheck_seeded.sh %s   (or: git -C /repo apply /verif/seeded/%s/patch.diff && (cd /verif && ./check %s); git -C /repo checkout -- .)" % (name, name, prop)}, open(os.path.join(d, "meta.json"), "w"), indent=1)
