#!/bin/sh
# usage: try_mutant.sh <patch.diff> <property id> [tier]
# Applies a patch to /repo, runs the quick check, and ALWAYS restores /repo afterwards.
set -u
patch="$1"; prop="$2"; tier="${3:-quick}"
cd /repo || exit 2
if ! git diff --quiet; then echo "repo dirty, refusing"; exit 2; fi
git apply "$patch" || { echo "patch does not apply"; exit 2; }
cd /verif && VERIF_EVIDENCE_DIR=/tmp/vp-mutant-evidence ./check "$prop" --tier "$tier" > /tmp/mutant-out.txt 2>&1
rc=$?
git -C /repo checkout -- .
grep -E "^(VIOLATION|KNOWN-FINDING|DRIFT|MACHINERY|C[0-9]+ tier)" /tmp/mutant-out.txt | cut -c1-400 | head -8
echo "exit=$rc"
