#!/bin/sh
# Runs every registered quick check on the current (clean) tree, in sequence; prints one line each.
cd /verif || exit 2
if ! git -C /repo diff --quiet; then echo "/repo has uncommitted changes"; exit 2; fi
tier="${1:-quick}"
for id in $(python3 -c "import json;print(' '.join(c['property_id'] for c in json.load(open('MANIFEST.json'))['checks']))"); do
  out=$(./check $id --tier $tier 2>&1); rc=$?
  echo "$id rc=$rc $(echo "$out" | grep -E "^(VIOLATION|KNOWN|DRIFT|MACHINERY)" | head -3 | cut -c1-200) | $(echo "$out" | tail -1 | cut -c1-200)"
done
python3-vt - <<'PY'
import json, jsonschema, glob
sch=json.load(open('/root/.vp/EVIDENCE.schema.json'))
m=json.load(open('/verif/MANIFEST.json'))
jsonschema.validate(m, json.load(open('/root/.vp/MANIFEST.schema.json')))
for c in m['checks']:
    e=json.load(open(c['evidence_file']))
    jsonschema.validate(e, sch)
    assert e['level']==c['level_claimed']['category'], (c['property_id'], e['level'])
print("manifest + evidence valid")
PY
