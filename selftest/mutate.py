#!/usr/bin/env python3
"""Mechanical mutation run: how many syntactic mutants of the anchored code do the checks catch?

usage: mutate.py [--per-file N] [--seed S] [--jobs J] [--files substr,substr] [--out report.json]

For every source file that a property is anchored in, generate single-site AST mutants
(comparison and boolean operators swapped, arithmetic operators swapped, constants changed,
conditions forced, statements dropped, return values dropped), sample N per file, and for each:
  1. write the mutated package into a scratch copy of /repo/src (never into /repo),
  2. run the project's own test suite against it - a mutant the 85 tests kill is not interesting,
  3. run the quick checks of the properties anchored in that file (VERIF_REPO = the copy),
  4. record: killed by tests / detected by a check (which formula) / survived.
Survivors are listed with their diff so that they can be judged (equivalent mutant, outside
every property, or a gap in a check).  Evidence of these runs goes to a scratch directory.
"""
import argparse
import ast
import copy
import difflib
import json
import os
import random
import shutil
import subprocess
import sys
import tempfile
from concurrent.futures import ThreadPoolExecutor

REPO = "/repo"
VERIF = os.environ.get("VERIF_HOME", "/verif")
PY = "/venv/bin/python"

CMP = {ast.Lt: ast.LtE, ast.LtE: ast.Lt, ast.Gt: ast.GtE, ast.GtE: ast.Gt, ast.Eq: ast.NotEq, ast.NotEq: ast.Eq,
       ast.Is: ast.IsNot, ast.IsNot: ast.Is, ast.In: ast.NotIn, ast.NotIn: ast.In}
BIN = {ast.Add: ast.Sub, ast.Sub: ast.Add, ast.Mult: ast.FloorDiv, ast.Div: ast.Mult, ast.FloorDiv: ast.Div, ast.Mod: ast.FloorDiv}


def is_point_call(node):
    return isinstance(node, ast.Expr) and isinstance(node.value, ast.Call) and getattr(node.value.func, "id", "") == "point"


def is_docstring(node):
    return isinstance(node, ast.Expr) and isinstance(node.value, ast.Constant) and isinstance(node.value.value, str)


def sites(tree):
    """-> list of (description, mutator(tree_copy_node_lookup)) as (kind, node index, extra)"""
    out = []
    nodes = list(ast.walk(tree))
    for i, n in enumerate(nodes):
        if isinstance(n, ast.Compare):
            for k, op in enumerate(n.ops):
                if type(op) in CMP:
                    out.append(("cmp", i, k))
        elif isinstance(n, ast.BoolOp):
            out.append(("bool", i, 0))
        elif isinstance(n, ast.UnaryOp) and isinstance(n.op, ast.Not):
            out.append(("not", i, 0))
        elif isinstance(n, ast.BinOp) and type(n.op) in BIN:
            out.append(("bin", i, 0))
        elif isinstance(n, ast.Constant) and not isinstance(n.value, (str, bytes, type(None), type(Ellipsis))):
            out.append(("const", i, 0))
        elif isinstance(n, (ast.If, ast.While)) and not (isinstance(n.test, ast.Constant)):
            out.append(("iftrue", i, 0))
            out.append(("iffalse", i, 0))
        elif isinstance(n, ast.Return) and n.value is not None and not (isinstance(n.value, ast.Constant) and n.value.value is None):
            out.append(("retnone", i, 0))
        elif isinstance(n, (ast.Assign, ast.AugAssign, ast.Expr)) and not is_point_call(n) and not is_docstring(n):
            if isinstance(n, ast.Expr) and not isinstance(n.value, (ast.Call, ast.Await)):
                continue
            out.append(("drop", i, 0))
    return out


def apply_site(tree, site):
    kind, idx, k = site
    t = copy.deepcopy(tree)
    n = list(ast.walk(t))[idx]
    if kind == "cmp":
        n.ops[k] = CMP[type(n.ops[k])]()
    elif kind == "bool":
        n.op = ast.Or() if isinstance(n.op, ast.And) else ast.And()
    elif kind == "not":
        # replace `not x` by `x`: copy fields of operand into the node
        op = n.operand
        n.__class__ = op.__class__
        n.__dict__.clear()
        n.__dict__.update(op.__dict__)
    elif kind == "bin":
        n.op = BIN[type(n.op)]()
    elif kind == "const":
        v = n.value
        n.value = (not v) if isinstance(v, bool) else (v + 1 if v != 1 else 0)
    elif kind == "iftrue":
        n.test = ast.Constant(True)
    elif kind == "iffalse":
        n.test = ast.Constant(False)
    elif kind == "retnone":
        n.value = ast.Constant(None)
    elif kind == "drop":
        n.__class__ = ast.Pass
        n.__dict__ = {k2: v for k2, v in n.__dict__.items() if k2 in ("lineno", "col_offset", "end_lineno", "end_col_offset")}
    ast.fix_missing_locations(t)
    return t


def anchored_files():
    files = {}
    for line in open(os.path.join(VERIF, "properties.jsonl")):
        d = json.loads(line)
        for f in d["anchors"]["files"]:
            if f.endswith(".py") and os.path.exists(os.path.join(REPO, f)):
                files.setdefault(f, []).append(d["id"])
    return files


def run_mutant(job):
    n, relpath, props, site, base_src, new_src, desc = job
    d = tempfile.mkdtemp(prefix="vp-mut-")
    try:
        shutil.copytree(os.path.join(REPO, "src"), os.path.join(d, "src"))
        with open(os.path.join(d, relpath), "w") as f:
            f.write(new_src)
        env = dict(os.environ, PYTHONPATH=os.path.join(d, "src"), PYTHONDONTWRITEBYTECODE="1")
        env.pop("COBALD_VERIF", None)
        try:
            t = subprocess.run([PY, "-m", "pytest", "-q", "-x", "-p", "no:cacheprovider", "--timeout=120"], cwd=REPO, env=env, stdout=subprocess.PIPE, stderr=subprocess.STDOUT, text=True, timeout=400)
            tests_ok = t.returncode == 0
        except subprocess.TimeoutExpired:
            tests_ok = False
        res = {"n": n, "file": relpath, "site": list(site), "desc": desc, "tests_pass": tests_ok, "checks": {}}
        if not tests_ok:
            res["status"] = "killed-by-tests"
            return res
        status = "survived"
        for p in props:
            e = dict(os.environ, VERIF_REPO=d, VERIF_EVIDENCE_DIR=os.path.join(d, "evidence"))
            try:
                c = subprocess.run(["./check", p, "--tier", "quick"], cwd=VERIF, env=e, stdout=subprocess.PIPE, stderr=subprocess.STDOUT, text=True, timeout=900)
                rc, out = c.returncode, c.stdout
            except subprocess.TimeoutExpired:
                rc, out = 2, "timeout"
            inv = [l.strip()[:80] for l in out.splitlines() if l.startswith("  invariant=")][:2]
            drift = any(l.startswith("DRIFT") for l in out.splitlines())
            res["checks"][p] = {"rc": rc, "formulas": inv, "drift": drift}
            if rc == 1:
                status = "detected"
                break
            if rc not in (0, 1) and status != "detected":
                status = "machinery-failure"   # exit 2, or killed (a runaway mutant: 137)
        res["status"] = status
        return res
    finally:
        shutil.rmtree(d, ignore_errors=True)


def main():
    ap = argparse.ArgumentParser()
    ap.add_argument("--per-file", type=int, default=8)
    ap.add_argument("--seed", type=int, default=0)
    ap.add_argument("--jobs", type=int, default=5)
    ap.add_argument("--files", default="")
    ap.add_argument("--out", default="/tmp/mutation-report.json")
    a = ap.parse_args()
    rnd = random.Random(a.seed)
    jobs = []
    for rel, props in sorted(anchored_files().items()):
        if a.files and not any(s in rel for s in a.files.split(",")):
            continue
        src = open(os.path.join(REPO, rel)).read()
        tree = ast.parse(src)
        base = ast.unparse(tree)
        ss = sites(tree)
        rnd.shuffle(ss)
        picked = 0
        for site in ss:
            if picked >= a.per_file:
                break
            try:
                new = ast.unparse(apply_site(tree, site))
                compile(new, rel, "exec")
            except Exception:
                continue
            if new == base:
                continue
            diff = [l for l in difflib.unified_diff(base.splitlines(), new.splitlines(), lineterm="", n=0) if not l.startswith(("---", "+++", "@@"))]
            jobs.append((len(jobs), rel, sorted(set(props)), site, base, new, " | ".join(diff)[:300]))
            picked += 1
    print("%d mutants over %d files" % (len(jobs), len({j[1] for j in jobs})), flush=True)
    results = []
    with ThreadPoolExecutor(max_workers=a.jobs) as ex:
        for r in ex.map(run_mutant, jobs):
            results.append(r)
            print("%3d %-18s %-48s %s %s" % (r["n"], r["status"], r["file"].replace("src/cobald/", ""), r["desc"][:110], {p: (c["rc"], c["formulas"][:1]) for p, c in r["checks"].items()} if r["status"] != "killed-by-tests" else ""), flush=True)
            json.dump(results, open(a.out, "w"), indent=1)
    tally = {}
    for r in results:
        tally[r["status"]] = tally.get(r["status"], 0) + 1
    print("TALLY", tally)


if __name__ == "__main__":
    main()
